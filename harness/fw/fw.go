// Package fw is the small runtime shared by all property monitors: it reads the
// run parameters from the environment, hands out per-case PRNGs, logs each case
// before it is executed (so that a process-fatal report leaves a witness), and
// writes what the monitors observed to a result file the driver merges.
package fw

import (
	"encoding/binary"
	"encoding/json"
	"fmt"
	"hash/fnv"
	"math/rand/v2"
	"os"
	"sort"
	"strconv"
	"strings"
	"sync"
	"testing"
	"time"
)

// Violation is one monitor report.
type Violation struct {
	Case    string   `json:"case"`    // case key (phase:index) — enough to replay with seed and tier
	Tags    []string `json:"tags"`    // input/behaviour class tags, matched against KNOWN_FINDINGS.json
	Msg     string   `json:"msg"`     // what the monitor saw vs. expected
	Witness any      `json:"witness"` // literal case (input, script, history, ...)
}

// Result is what a child process reports for its batch.
type Result struct {
	Prop        string           `json:"prop"`
	Seed        int64            `json:"seed"`
	Tier        string           `json:"tier"`
	Batch       int              `json:"batch"`
	NBatch      int              `json:"nbatch"`
	Evaluations int64            `json:"evaluations"`
	Nontrivial  int64            `json:"nontrivial_hashes"`
	Counters    map[string]int64 `json:"counters"`
	Samples     []any            `json:"samples"`
	Violations  []Violation      `json:"violations"`
	NViolations int64            `json:"nviolations"`
	Exhaustive  []string         `json:"exhaustive"`
	Done        bool             `json:"done"`
	WallS       float64          `json:"wall_s"`
}

// Run is the per-process monitor context.
type Run struct {
	T      *testing.T
	Prop   string
	Seed   int64
	Tier   string // quick | thorough
	Batch  int
	NBatch int
	Only   string // if set, only the case with this key is executed (replay)

	mu         sync.Mutex
	evals      int64
	hashes     map[uint64]struct{}
	counters   map[string]int64
	samples    []any
	sampleKeys map[string]int
	viol       []Violation
	nviol      int64
	exhaustive []string
	caseLog    *os.File
	outPath    string
	hashPath   string
	start      time.Time
	curCase    string
	seenViol   map[string]int
}

func envInt(name string, def int64) int64 {
	if v := os.Getenv(name); v != "" {
		if n, err := strconv.ParseInt(v, 10, 64); err == nil {
			return n
		}
	}
	return def
}

// Start creates the Run for property prop. It skips the test unless VERIF_PROP selects it.
func Start(t *testing.T, prop string) *Run {
	if os.Getenv("VERIF_PROP") != prop {
		t.Skip("not selected (VERIF_PROP)")
	}
	r := &Run{
		T: t, Prop: prop,
		Seed:       envInt("VERIF_SEED", 1),
		Tier:       os.Getenv("VERIF_TIER"),
		Batch:      int(envInt("VERIF_BATCH", 0)),
		NBatch:     int(envInt("VERIF_NBATCH", 1)),
		Only:       os.Getenv("VERIF_ONLY"),
		hashes:     map[uint64]struct{}{},
		counters:   map[string]int64{},
		sampleKeys: map[string]int{},
		outPath:    os.Getenv("VERIF_OUT"),
		start:      time.Now(),
	}
	if r.Tier != "thorough" {
		r.Tier = "quick"
	}
	if r.NBatch < 1 {
		r.NBatch = 1
	}
	if r.outPath != "" {
		r.hashPath = r.outPath + ".hashes"
		f, err := os.OpenFile(r.outPath+".cases", os.O_CREATE|os.O_WRONLY|os.O_TRUNC, 0o644)
		if err == nil {
			r.caseLog = f
		}
	}
	return r
}

// Thorough reports whether the thorough tier was requested.
func (r *Run) Thorough() bool { return r.Tier == "thorough" }

// N picks the case count for the tier.
func (r *Run) N(quick, thorough int) int {
	if r.Thorough() {
		return thorough
	}
	return quick
}

// Mine tells whether case number i of a phase belongs to this process's batch
// (and, in replay mode, whether it is the selected case).
func (r *Run) Mine(phase string, i int) bool {
	if r.Only != "" {
		return r.Only == Key(phase, i)
	}
	return i%r.NBatch == r.Batch
}

// Key is the replayable name of a case.
func Key(phase string, i int) string { return phase + ":" + strconv.Itoa(i) }

// Rand returns the PRNG of case i of a phase: a function of (seed, phase, i) only,
// so every case can be regenerated on its own.
func (r *Run) Rand(phase string, i int) *rand.Rand {
	h := fnv.New64a()
	h.Write([]byte(phase))
	var b [16]byte
	binary.LittleEndian.PutUint64(b[:8], uint64(r.Seed))
	binary.LittleEndian.PutUint64(b[8:], uint64(i))
	h.Write(b[:])
	s := h.Sum64()
	return rand.New(rand.NewPCG(s, s^0x9e3779b97f4a7c15^uint64(r.Seed)))
}

// Begin logs the case key (and an optional short descriptor) to disk before the
// case is executed; if the process dies the driver takes the last line as witness.
func (r *Run) Begin(key string, desc string) {
	r.mu.Lock()
	r.curCase = key
	r.mu.Unlock()
	if r.caseLog != nil {
		if len(desc) > 4096 {
			desc = desc[:4096] + "…"
		}
		fmt.Fprintf(r.caseLog, "%s\t%s\n", key, strconv.Quote(desc))
	}
}

// Eval counts one execution; hash identifies the case for the distinct count and
// nontrivial says whether it counts as non-trivial by the property's rule.
func (r *Run) Eval(hash uint64, nontrivial bool) {
	r.mu.Lock()
	r.evals++
	if nontrivial {
		r.hashes[hash] = struct{}{}
	}
	r.mu.Unlock()
}

// Count adds to a named monitor counter (events observed).
func (r *Run) Count(name string, n int64) {
	r.mu.Lock()
	r.counters[name] += n
	r.mu.Unlock()
}

// Max keeps the maximum of a named gauge.
func (r *Run) Max(name string, v int64) {
	r.mu.Lock()
	if v > r.counters[name] {
		r.counters[name] = v
	}
	r.mu.Unlock()
}

// Sample keeps up to perKind literal cases per kind for the evidence file.
func (r *Run) Sample(kind string, perKind int, v any) {
	r.mu.Lock()
	if r.sampleKeys[kind] < perKind {
		r.sampleKeys[kind]++
		r.samples = append(r.samples, map[string]any{"kind": kind, "case": v})
	}
	r.mu.Unlock()
}

// Exhaustive records that a finite space was enumerated completely.
func (r *Run) Exhaustive(what string) {
	r.mu.Lock()
	r.exhaustive = append(r.exhaustive, what)
	r.mu.Unlock()
}

// Violation records a monitor report. At most 40 witnesses are kept per process;
// all are counted.
func (r *Run) Violation(key string, tags []string, witness any, format string, a ...any) {
	r.mu.Lock()
	r.nviol++
	sort.Strings(tags)
	// One witness per (case, tag set); at most 3 per tag set; at most 60 per process.
	// Every report is counted.
	tk := strings.Join(tags, ",")
	ck := key + "|" + tk
	if r.seenViol == nil {
		r.seenViol = map[string]int{}
	}
	if r.seenViol[ck] == 0 && r.seenViol["#"+tk] < 3 && len(r.viol) < 60 {
		r.viol = append(r.viol, Violation{Case: key, Tags: tags, Msg: fmt.Sprintf(format, a...), Witness: witness})
		r.seenViol["#"+tk]++
	}
	r.seenViol[ck]++
	r.mu.Unlock()
	// Persist immediately so a later crash does not lose it.
	r.flush(false)
}

// NViol returns the number of violations so far.
func (r *Run) NViol() int64 {
	r.mu.Lock()
	defer r.mu.Unlock()
	return r.nviol
}

// Finish writes the result file.
func (r *Run) Finish() { r.flush(true) }

func (r *Run) flush(done bool) {
	r.mu.Lock()
	defer r.mu.Unlock()
	if r.outPath == "" {
		if done {
			r.T.Logf("evals=%d nontrivial=%d viol=%d counters=%v", r.evals, len(r.hashes), r.nviol, r.counters)
			for _, v := range r.viol {
				b, _ := json.Marshal(v)
				r.T.Errorf("VIOLATION %s", b)
			}
		}
		return
	}
	res := Result{
		Prop: r.Prop, Seed: r.Seed, Tier: r.Tier, Batch: r.Batch, NBatch: r.NBatch,
		Evaluations: r.evals, Nontrivial: int64(len(r.hashes)), Counters: r.counters,
		Samples: r.samples, Violations: r.viol, NViolations: r.nviol, Exhaustive: r.exhaustive,
		Done: done, WallS: time.Since(r.start).Seconds(),
	}
	b, err := json.Marshal(res)
	if err != nil {
		// A witness that cannot be marshalled must not hide the violation.
		for i := range res.Violations {
			res.Violations[i].Witness = fmt.Sprintf("%+v", res.Violations[i].Witness)
		}
		res.Samples = nil
		b, _ = json.Marshal(res)
	}
	tmp := r.outPath + ".tmp"
	if os.WriteFile(tmp, b, 0o644) == nil {
		os.Rename(tmp, r.outPath)
	}
	if done {
		hb := make([]byte, 0, 8*len(r.hashes))
		for h := range r.hashes {
			hb = binary.LittleEndian.AppendUint64(hb, h)
		}
		os.WriteFile(r.hashPath, hb, 0o644)
		if r.caseLog != nil {
			r.caseLog.Close()
		}
	}
}

// Hash hashes strings/bytes into a case identity.
func Hash(parts ...string) uint64 {
	h := fnv.New64a()
	for _, p := range parts {
		h.Write([]byte(p))
		h.Write([]byte{0xff, 0})
	}
	return h.Sum64()
}

// Q quotes bytes for witnesses (ASCII-safe, reversible).
func Q(s string) string { return strconv.QuoteToASCII(s) }

// Trunc shortens long strings for samples.
func Trunc(s string, n int) string {
	if len(s) <= n {
		return s
	}
	return s[:n] + fmt.Sprintf("…(+%d bytes)", len(s)-n)
}

// JoinTags is a helper for building tag lists.
func JoinTags(tags ...string) []string {
	out := []string{}
	for _, t := range tags {
		if t != "" {
			out = append(out, t)
		}
	}
	return out
}

// HasPrefixAny reports whether s starts with any of the prefixes.
func HasPrefixAny(s string, ps ...string) bool {
	for _, p := range ps {
		if strings.HasPrefix(s, p) {
			return true
		}
	}
	return false
}
