package props

import (
	"bytes"
	"context"
	"errors"
	"fmt"
	"io"
	"net/http"
	"strconv"
	"strings"
	"time"

	sse "github.com/tmaxmax/go-sse"

	"verifharness/mon"
	"verifharness/ref"
)

// obsEvent is an event as observed at a go-sse boundary.
type obsEvent struct {
	ID, Type, Data string
}

func (e obsEvent) String() string {
	return fmt.Sprintf("{id=%q type=%q data=%q}", e.ID, e.Type, e.Data)
}

// readObs is what a monitor saw from one Read/Connect execution.
type readObs struct {
	Events []obsEvent
	// End condition: "clean" (nil / io.EOF), "ueof" (ErrUnexpectedEOF), "nil" (Connect returned nil),
	// "err:<text>" anything else.
	End string
	Err error
	// Protocol violations of the iterator itself.
	Proto []string
	// Pulled bytes from the reader, and the pulled count at the time each event was yielded.
	Pulled   int
	Attempts int
	Retries  []int64 // setRetry values are not observable directly; left empty
}

func isWrapEOFChain(err error) bool {
	for e := err; e != nil; e = errors.Unwrap(e) {
		if e == errWrapEOF {
			return true
		}
	}
	return false
}

func classifyEnd(err error) string {
	switch {
	case err == nil:
		return "clean"
	case errors.Is(err, sse.ErrUnexpectedEOF):
		return "ueof"
	case err == errWrapEOF || errors.Is(err, errWrapEOF) && err != io.EOF && errors.Unwrap(err) != nil && isWrapEOFChain(err):
		return "rerr_wrapeof"
	case errors.Is(err, io.EOF):
		return "clean"
	default:
		return "err:" + err.Error()
	}
}

// runRead drives sse.Read over the reader. stopAt >= 0 makes the yield function return
// false at the stopAt-th event (0-based).
func runRead(rd io.Reader, cfg *sse.ReadConfig, stopAt int) (obs readObs) {
	stopped := false
	errSeen := false
	defer func() {
		if r := recover(); r != nil {
			obs.Proto = append(obs.Proto, fmt.Sprintf("panic: %v", r))
			obs.End = "panic"
		}
	}()
	var endErr error
	var raw []obsEvent // the events as a caller that keeps them would see them later
	defer func() {
		for i := range raw {
			if i < len(obs.Events) && raw[i] != obs.Events[i] {
				obs.Proto = append(obs.Proto, fmt.Sprintf("event #%d changed after it was yielded: was %v, is now %v (strings alias a buffer that is reused)", i, obs.Events[i], raw[i]))
				break
			}
		}
	}()
	seq := sse.Read(rd, cfg)
	defer func() {
		// a second pass over a sequence whose stream ended cleanly: nothing is left, so it yields no
		// event (and does not panic: the deferred recover above would record it)
		if obs.End != "clean" || len(obs.Proto) > 0 {
			return
		}
		second := 0
		seq(func(e sse.Event, err error) bool {
			if err == nil {
				second++
			}
			return true
		})
		if second > 0 {
			obs.Proto = append(obs.Proto, fmt.Sprintf("a second pass over the sequence, after the stream had ended, yielded %d events", second))
		}
	}()
	seq(func(e sse.Event, err error) bool {
		if stopped {
			obs.Proto = append(obs.Proto, "yield called after it returned false")
			return false
		}
		if errSeen {
			obs.Proto = append(obs.Proto, "yield called after an error was yielded")
			return false
		}
		if err != nil {
			errSeen = true
			endErr = err
			if e != (sse.Event{}) {
				obs.Proto = append(obs.Proto, fmt.Sprintf("event %+v yielded together with error %v", e, err))
			}
			return true // keep going: a correct iterator stops by itself
		}
		obs.Events = append(obs.Events, obsEvent{strings.Clone(e.LastEventID), strings.Clone(e.Type), strings.Clone(e.Data)})
		raw = append(raw, obsEvent{e.LastEventID, e.Type, e.Data})
		if stopAt >= 0 && len(obs.Events)-1 == stopAt {
			stopped = true
			return false
		}
		return true
	})
	obs.Err = endErr
	if stopped {
		obs.End = "stopped"
	} else {
		obs.End = classifyEnd(endErr)
	}
	return obs
}

// scriptedRT is a RoundTripper that serves one scripted body per attempt.
type scriptedRT struct {
	bodies   func(attempt int, req *http.Request) (io.Reader, error)
	attempts int
	header   http.Header
	// contentLength is announced in the response when >= 0 is wanted (0 means "unknown", as -1)
	contentLength int64
}

func (s *scriptedRT) RoundTrip(req *http.Request) (*http.Response, error) {
	a := s.attempts
	s.attempts++
	body, err := s.bodies(a, req)
	if err != nil {
		return nil, err
	}
	h := http.Header{"Content-Type": []string{"text/event-stream"}}
	cl := int64(-1)
	if s.contentLength > 0 {
		cl = s.contentLength
		h.Set("Content-Length", strconv.FormatInt(cl, 10))
	}
	for k, v := range s.header {
		h[k] = v
	}
	return &http.Response{
		Status: "200 OK", StatusCode: 200, Proto: "HTTP/1.1", ProtoMajor: 1, ProtoMinor: 1,
		Header: h, Body: io.NopCloser(body), Request: req, ContentLength: cl,
	}, nil
}

// errReader returns its error once asked (io.EOF lets a MultiReader move on).
type errReader struct{ err error }

func (e errReader) Read([]byte) (int, error) { return 0, e.err }

var runConnCalls int

// runConnNoSniff: C20 counts the bytes pulled from the reader; a sniffing validator would pull up to
// five of them ahead of the parser
var runConnNoSniff bool

// runConnPreBuf / runConnWarmupMax: see runConn (set by C20 for some configurations)
var runConnPreBuf, runConnWarmupMax int

// runConnRetryFirst: the reader is served to the connection's first reconnection instead of its first attempt
var runConnRetryFirst bool

// runConn drives a Connection (single attempt, no retries) over the reader.
func runConn(rd io.Reader, buf []byte, maxSize int) (obs readObs) {
	defer func() {
		if r := recover(); r != nil {
			obs.Proto = append(obs.Proto, fmt.Sprintf("panic: %v", r))
			obs.End = "panic"
		}
	}()
	rt := &scriptedRT{bodies: func(int, *http.Request) (io.Reader, error) { return rd, nil }}
	var retryErrs []error
	// every other finite body is announced with its exact Content-Length (a buffered or cached response)
	runConnCalls++
	if cr, ok := rd.(*mon.ChunkReader); ok && !cr.Endless && runConnCalls%2 == 1 {
		rt.contentLength = int64(len(cr.Data))
	}
	cl := &sse.Client{
		HTTPClient: &http.Client{Transport: rt},
		Backoff:    sse.Backoff{MaxRetries: -1},
	}
	if runConnRetryFirst {
		// the stream under test is what the connection gets on its first reconnection (retries after 1 ns; a
		// connection that worked restarts the retry count, so the run is ended by a third request that fails in
		// the transport, and the outcome of the stream is the error OnRetry reports after the second attempt)
		cl.Backoff = sse.Backoff{MaxRetries: 1, InitialInterval: 1, Multiplier: 1, Jitter: -1}
		cl.OnRetry = func(err error, _ time.Duration) { retryErrs = append(retryErrs, err) }
	}
	if runConnCalls%3 == 2 && !runConnNoSniff {
		// a validator that sniffs the beginning of the stream and puts it back (the usual
		// MultiReader idiom): the connection reads the body the validator leaves in the response
		cl.ResponseValidator = func(res *http.Response) error {
			buf := make([]byte, 5)
			n, err := res.Body.Read(buf)
			rest := []io.Reader{bytes.NewReader(buf[:n])}
			if err != nil {
				rest = append(rest, errReader{err})
			}
			res.Body = struct {
				io.Reader
				io.Closer
			}{io.MultiReader(append(rest, res.Body)...), res.Body}
			return nil
		}
	}
	req, _ := http.NewRequestWithContext(context.Background(), http.MethodGet, "http://verif.invalid/stream", http.NoBody)
	conn := cl.NewConnection(req)
	armed := true
	if runConnPreBuf > 0 {
		// the buffer is configured twice; the second call is the one that counts
		conn.Buffer(make([]byte, 0, runConnPreBuf), runConnPreBuf)
	}
	if runConnWarmupMax > 0 {
		// an earlier Connect on the same Connection, with a larger limit, before the limit is lowered
		armed = false
		first := true
		inner := rt.bodies
		rt.bodies = func(a int, r *http.Request) (io.Reader, error) {
			if first {
				first = false
				return strings.NewReader("data: warm-up " + strings.Repeat("w", 3000) + "\n\n"), nil
			}
			return inner(a, r)
		}
		conn.Buffer(nil, runConnWarmupMax)
		conn.Connect()
		armed = true
		if buf == nil && maxSize == 0 {
			maxSize = 64 * 1024 // back to the default, said explicitly
		}
	}
	if buf != nil || maxSize > 0 {
		conn.Buffer(buf, maxSize)
	}
	if runConnRetryFirst {
		// first attempt: a stream of one comment that ends; the configuration is not touched in between
		armed = false
		calls := 0
		inner := rt.bodies
		rt.bodies = func(a int, r *http.Request) (io.Reader, error) {
			calls++
			switch calls {
			case 1:
				return strings.NewReader(": w\n\n"), nil
			case 2:
				armed = true
				return inner(a, r)
			}
			return nil, errors.New("the harness ends the run: no third connection")
		}
	}
	returned := false
	var raw []obsEvent
	conn.SubscribeToAll(func(e sse.Event) {
		if !armed {
			return
		}
		if returned {
			obs.Proto = append(obs.Proto, "callback after Connect returned")
		}
		obs.Events = append(obs.Events, obsEvent{strings.Clone(e.LastEventID), strings.Clone(e.Type), strings.Clone(e.Data)})
		raw = append(raw, obsEvent{e.LastEventID, e.Type, e.Data})
	})
	err := conn.Connect()
	returned = true
	if runConnRetryFirst && len(retryErrs) >= 2 {
		err = retryErrs[1]
	}
	for i := range raw {
		if raw[i] != obs.Events[i] {
			obs.Proto = append(obs.Proto, fmt.Sprintf("event #%d changed after it was passed to the callback: was %v, is now %v (strings alias a buffer that is reused)", i, obs.Events[i], raw[i]))
			break
		}
	}
	obs.Err = err
	obs.Attempts = rt.attempts
	if runConnRetryFirst {
		obs.Attempts = min(obs.Attempts, 2) - 1
	}
	if err == nil {
		obs.End = "nil"
		return obs
	}
	var ce *sse.ConnectionError
	if !errors.As(err, &ce) {
		obs.End = "err-unwrapped:" + err.Error()
		return obs
	}
	obs.End = classifyEnd(ce.Err)
	return obs
}

func refEvents(o ref.Out) []obsEvent {
	ev := make([]obsEvent, len(o.Events))
	for i, e := range o.Events {
		ev[i] = obsEvent{e.ID, e.Type, e.Data}
	}
	return ev
}

func refEnd(o ref.Out) string {
	if o.UnexpectedEOF {
		return "ueof"
	}
	return "clean"
}

func eqEvents(a, b []obsEvent) bool {
	if len(a) != len(b) {
		return false
	}
	for i := range a {
		if a[i] != b[i] {
			return false
		}
	}
	return true
}

func fmtEvents(ev []obsEvent) []string {
	out := make([]string, 0, len(ev))
	for i, e := range ev {
		if i >= 12 {
			out = append(out, fmt.Sprintf("… %d more", len(ev)-i))
			break
		}
		s := e.String()
		if len(s) > 200 {
			s = s[:200] + "…"
		}
		out = append(out, s)
	}
	return out
}

// segName describes a segmentation for witnesses.
// wrapEOFErr is a read failure that wraps io.EOF: a failed read, not a clean end of the stream.
type wrapEOFErr struct{}

func (wrapEOFErr) Error() string { return "injected read failure wrapping EOF" }
func (wrapEOFErr) Unwrap() error { return io.EOF }

var errWrapEOF error = wrapEOFErr{}

type segSpec struct {
	// EndWrapEOF: the reader ends with a read error that wraps io.EOF instead of a clean EOF
	EndWrapEOF  bool   `json:"end_wraps_eof,omitempty"`
	Kind        string `json:"kind"`
	Cuts        []int  `json:"cuts,omitempty"`
	EOFWithLast bool   `json:"eof_with_last,omitempty"`
	ZeroEvery   int    `json:"zero_every,omitempty"`
}

func (s segSpec) reader(data string) *mon.ChunkReader {
	cuts := s.Cuts
	switch s.Kind {
	case "bytes":
		cuts = mon.EveryByte(len(data))
	}
	cr := &mon.ChunkReader{Data: data, Cuts: cuts, EOFWithLast: s.EOFWithLast, ZeroEvery: s.ZeroEvery}
	if s.EndWrapEOF {
		cr.EndErr = errWrapEOF
	}
	return cr
}

var _ = time.Now
var _ = strings.Contains
