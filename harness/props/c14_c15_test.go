package props

import (
	"bytes"
	"encoding/json"
	"errors"
	"fmt"
	"io"
	"net/http"
	"net/http/httptest"
	"net/url"
	"reflect"
	"strings"
	"testing"

	sse "github.com/tmaxmax/go-sse"

	"verifharness/fw"
	"verifharness/mon"
	"verifharness/ref"
)

// ---- C14: a set EventID/EventType is always a single line ---------------------------

type fieldVal interface {
	IsSet() bool
	String() string
}

// c14Clobber overwrites the caller-owned input buffer after construction (what database
// drivers and decoders do with reused buffers) and re-asserts the value: it must not change.
func c14Clobber(r *fw.Run, key, route, desc string, buf []byte, orig string, v fieldVal) {
	if !v.IsSet() || len(buf) == 0 {
		return
	}
	for i := range buf {
		buf[i] = '\n'
	}
	r.Count("clobber_checks", 1)
	if v.String() != orig || hasNewline(v.String()) {
		r.Violation(key, []string{"value_aliases_input_buffer", "route_" + route}, map[string]any{"route": route, "input": desc, "value_after_overwrite": fw.Q(v.String())},
			"C14: %s(%s): the set value changed to %s after the caller reused its input buffer", route, desc, fw.Q(v.String()))
	}
}

// c14Judge applies the oracle to one (route, input) observation.
//   - v: resulting value; rerr: the route's error (hasErr tells whether the route has one)
//   - input: the logical string the route was given (after JSON decoding etc.); ok=false when
//     the route's input is not a string at all (then only "set => single line" is judged)
func c14Judge(r *fw.Run, key, route, kind, inputDesc string, input string, inputIsString bool, v fieldVal, rerr error, hasErr bool) {
	r.Count("observations", 1)
	r.Count("route_"+route, 1)
	multi := hasNewline(input)
	if v.IsSet() && hasNewline(v.String()) {
		r.Violation(key, []string{"set_multiline", "route_" + route}, map[string]any{"route": route, "kind": kind, "input": inputDesc, "value": fw.Q(v.String())},
			"C14: %s(%s) produced a set %s containing CR/LF: %s", route, inputDesc, kind, fw.Q(v.String()))
		return
	}
	if inputIsString && multi {
		if v.IsSet() {
			r.Violation(key, []string{"multiline_input_set", "route_" + route}, map[string]any{"route": route, "kind": kind, "input": inputDesc},
				"C14: %s(%s): input contains CR/LF but the value is set", route, inputDesc)
		}
		if hasErr && rerr == nil {
			r.Violation(key, []string{"multiline_input_no_error", "route_" + route}, map[string]any{"route": route, "kind": kind, "input": inputDesc},
				"C14: %s(%s): input contains CR/LF but no error was reported", route, inputDesc)
		}
		r.Count("multiline_inputs_rejected", 1)
	}
	// A set value must be wire-safe: exactly one event with exactly that id/type and data.
	if v.IsSet() {
		m := &sse.Message{}
		m.AppendData("payload")
		want := obsEvent{Data: "payload"}
		if kind == "id" {
			m.ID = v.(sse.EventID)
			if !strings.Contains(v.String(), "\x00") {
				want.ID = v.String()
			}
		} else {
			m.Type = v.(sse.EventType)
			want.Type = v.String()
		}
		got := refEvents(ref.Interpret("data: before\n\n"+m.String()+"data: after\n\n", ref.Opts{}))
		exp := []obsEvent{{Data: "before"}, want, {ID: want.ID, Data: "after"}}
		if !eqEvents(got, exp) {
			r.Violation(key, []string{"wire_injection", "route_" + route}, map[string]any{"route": route, "kind": kind, "input": inputDesc, "wire": fw.Q(m.String()), "decoded": fmtEvents(got)},
				"C14: a set %s obtained through %s(%s) changes the decoded event sequence", kind, route, inputDesc)
		}
		r.Count("wire_checks", 1)
	}
}

func c14String(r *fw.Run, key, s string) {
	r.Begin(key, s)
	desc := fw.Q(fw.Trunc(s, 80))
	r.Eval(fw.Hash("c14", s), hasNewline(s))
	// NewID / NewType
	id, err := sse.NewID(s)
	c14Judge(r, key, "NewID", "id", desc, s, true, id, err, true)
	ty, err := sse.NewType(s)
	c14Judge(r, key, "NewType", "type", desc, s, true, ty, err, true)
	if !hasNewline(s) && (!id.IsSet() || id.String() != s || !ty.IsSet() || ty.String() != s) {
		r.Violation(key, []string{"single_line_not_accepted"}, map[string]any{"input": desc}, "C14: single-line input not accepted verbatim by NewID/NewType")
	}
	// ID / Type (panic = rejected)
	func() {
		var v sse.EventID
		var perr error
		func() {
			defer func() {
				if p := recover(); p != nil {
					perr = fmt.Errorf("panic: %v", p)
				}
			}()
			v = sse.ID(s)
		}()
		c14Judge(r, key, "ID", "id", desc, s, true, v, perr, true)
	}()
	func() {
		var v sse.EventType
		var perr error
		func() {
			defer func() {
				if p := recover(); p != nil {
					perr = fmt.Errorf("panic: %v", p)
				}
			}()
			v = sse.Type(s)
		}()
		c14Judge(r, key, "Type", "type", desc, s, true, v, perr, true)
	}()
	// UnmarshalText, starting from a previously set value (must not survive a failed decode as multi-line)
	{
		v := sse.ID("old")
		buf := []byte(s)
		err := v.UnmarshalText(buf)
		c14Judge(r, key, "UnmarshalText", "id", desc, s, true, v, err, true)
		c14Clobber(r, key, "UnmarshalText", desc, buf, s, v)
		w := sse.Type("old")
		err = w.UnmarshalText([]byte(s))
		c14Judge(r, key, "UnmarshalText", "type", desc, s, true, w, err, true)
	}
	// UnmarshalJSON with several encodings of the same string
	for _, enc := range jsonEncodings(s) {
		v := sse.ID("old")
		err := json.Unmarshal([]byte(enc), &v)
		var decoded string
		isStr := json.Unmarshal([]byte(enc), &decoded) == nil && enc != "null"
		c14Judge(r, key, "UnmarshalJSON", "id", fw.Q(fw.Trunc(enc, 80)), decoded, isStr, v, err, true)
		w := sse.Type("old")
		err = json.Unmarshal([]byte(enc), &w)
		c14Judge(r, key, "UnmarshalJSON", "type", fw.Q(fw.Trunc(enc, 80)), decoded, isStr, w, err, true)
		// inside a struct
		var st struct {
			ID sse.EventID `json:"id"`
			T  sse.EventType
		}
		err = json.Unmarshal([]byte(`{"id":`+enc+`,"T":`+enc+`}`), &st)
		c14Judge(r, key, "UnmarshalJSON-struct", "id", fw.Q(fw.Trunc(enc, 80)), decoded, isStr, st.ID, err, true)
		c14Judge(r, key, "UnmarshalJSON-struct", "type", fw.Q(fw.Trunc(enc, 80)), decoded, isStr, st.T, err, true)
		// a whole Message decoded from JSON (whatever document forms it accepts: a string of wire text,
		// an object with field names in any spelling): what it ends up with is single-line or unset
		for _, doc := range []string{
			`{"ID":` + enc + `,"Type":` + enc + `}`,
			`{"id":` + enc + `,"type":` + enc + `,"event":` + enc + `,"data":"x"}`,
			`{"LastEventID":` + enc + `,"Event":` + enc + `,"Data":["x"]}`,
			enc,
		} {
			var m sse.Message
			merr := json.Unmarshal([]byte(doc), &m)
			r.Count("message_json_documents", 1)
			for _, f := range []struct {
				kind string
				v    fieldVal
			}{{"id", m.ID}, {"type", m.Type}} {
				if f.v.IsSet() && hasNewline(f.v.String()) {
					r.Violation(key, []string{"multiline_value_set", "route_json.Unmarshal(Message)", f.kind}, map[string]any{"document": fw.Q(fw.Trunc(doc, 200)), "err": fmt.Sprint(merr), "value": fw.Q(fw.Trunc(f.v.String(), 100))},
						"C14: json.Unmarshal into a Message left a set %s containing a line break (error: %v)", f.kind, merr)
				}
			}
		}
	}
	// Scan: string, []byte
	{
		v := sse.ID("old")
		err := v.Scan(s)
		c14Judge(r, key, "Scan(string)", "id", desc, s, true, v, err, true)
		v2 := sse.ID("old")
		buf := []byte(s)
		err = v2.Scan(buf)
		c14Judge(r, key, "Scan([]byte)", "id", desc, s, true, v2, err, true)
		c14Clobber(r, key, "Scan([]byte)", desc, buf, s, v2)
		w := sse.Type("old")
		err = w.Scan(s)
		c14Judge(r, key, "Scan(string)", "type", desc, s, true, w, err, true)
		w2 := sse.Type("old")
		buf2 := []byte(s)
		err = w2.Scan(buf2)
		c14Judge(r, key, "Scan([]byte)", "type", desc, s, true, w2, err, true)
		c14Clobber(r, key, "Scan([]byte)", desc, buf2, s, w2)
	}
	// spellings of the same string that only a decoder would turn back into it (JSON quoting, percent
	// escapes): Scan and the header route take their input as it is - whatever they make of it, a
	// set value has no line break, and an input without a line break is taken over verbatim
	if hasNewline(s) {
		var spellings []string
		spellings = append(spellings, jsonEncodings(s)...)
		pe := strings.NewReplacer("\r", "%0D", "\n", "%0A", "%", "%25").Replace(s)
		spellings = append(spellings, pe, strings.ToLower(pe), url.QueryEscape(s), url.PathEscape(s))
		for _, sp := range spellings {
			if hasNewline(sp) {
				continue
			}
			sd := fw.Q(fw.Trunc(sp, 80))
			v := sse.ID("old")
			err := v.Scan(sp)
			c14Judge(r, key, "Scan(string)", "id", sd, sp, true, v, err, true)
			w := sse.Type("old")
			err = w.Scan([]byte(sp))
			c14Judge(r, key, "Scan([]byte)", "type", sd, sp, true, w, err, true)
			req := httptest.NewRequest(http.MethodGet, "http://verif.invalid/", http.NoBody)
			req.Header["Last-Event-Id"] = []string{sp}
			if sess, uerr := sse.Upgrade(httptest.NewRecorder(), req); uerr == nil {
				c14Judge(r, key, "Upgrade", "id", "header="+sd, sp, true, sess.LastEventID, nil, false)
				if sp != "" && (!sess.LastEventID.IsSet() || sess.LastEventID.String() != sp) {
					r.Violation(key, []string{"upgrade_header_lost"}, map[string]any{"header": sd, "got": fw.Q(sess.LastEventID.String())}, "C14: single-line Last-Event-Id header %s not taken over verbatim by Upgrade", sd)
				}
			}
		}
	}
	// every other decoder the types may offer: any exported method of *EventID / *EventType that takes
	// one []byte or string and returns an error (or nothing) is a construction route as well
	// (UnmarshalBinary, GobDecode, Set ...); encoding/gob goes through the ones it knows
	for _, tgt := range []struct {
		kind string
		mk   func() (reflect.Value, fieldVal, func() fieldVal)
	}{
		{"id", func() (reflect.Value, fieldVal, func() fieldVal) {
			v := sse.ID("old")
			return reflect.ValueOf(&v), v, func() fieldVal { return v }
		}},
		{"type", func() (reflect.Value, fieldVal, func() fieldVal) {
			v := sse.Type("old")
			return reflect.ValueOf(&v), v, func() fieldVal { return v }
		}},
	} {
		pv, _, _ := tgt.mk()
		for mi := 0; mi < pv.NumMethod(); mi++ {
			name := pv.Type().Method(mi).Name
			mt := pv.Method(mi).Type()
			if mt.NumIn() != 1 || mt.NumOut() > 1 || (mt.NumOut() == 1 && mt.Out(0) != reflect.TypeOf((*error)(nil)).Elem()) {
				continue
			}
			var arg reflect.Value
			switch {
			case mt.In(0) == reflect.TypeOf([]byte(nil)):
				arg = reflect.ValueOf([]byte(s))
			case mt.In(0).Kind() == reflect.String:
				arg = reflect.ValueOf(s).Convert(mt.In(0))
			default:
				continue
			}
			if name == "UnmarshalJSON" || name == "UnmarshalText" {
				continue // judged above with their own input forms
			}
			// inputs: the raw string, and - when the type has the matching encoder - the encoder's
			// output for a harmless value with the payload swapped for the string (whatever framing the
			// format has around the payload is learnt from the encoder itself)
			inputs := []reflect.Value{arg}
			if mt.In(0) == reflect.TypeOf([]byte(nil)) {
				encName := ""
				switch {
				case strings.HasPrefix(name, "Unmarshal"):
					encName = "Marshal" + name[len("Unmarshal"):]
				case strings.HasSuffix(name, "Decode"):
					encName = name[:len(name)-len("Decode")] + "Encode"
				}
				if em := pv.MethodByName(encName); encName != "" && em.IsValid() && em.Type().NumIn() == 0 && em.Type().NumOut() >= 1 && em.Type().Out(0) == reflect.TypeOf([]byte(nil)) {
					probe, _, _ := tgt.mk()
					const marker = "harmlessPROBEvalue"
					if tgt.kind == "id" {
						probe.Elem().Set(reflect.ValueOf(sse.ID(marker)))
					} else {
						probe.Elem().Set(reflect.ValueOf(sse.Type(marker)))
					}
					var outs []reflect.Value
					func() {
						defer func() { recover() }()
						outs = probe.MethodByName(encName).Call(nil)
					}()
					if len(outs) > 0 {
						if enc, ok := outs[0].Interface().([]byte); ok && bytes.Contains(enc, []byte(marker)) {
							inputs = append(inputs, reflect.ValueOf(bytes.ReplaceAll(enc, []byte(marker), []byte(s))))
						}
					}
				}
			}
			for _, in := range inputs {
				rv, _, get := tgt.mk()
				func() {
					defer func() { recover() }()
					rv.Method(mi).Call([]reflect.Value{in})
				}()
				r.Count("reflected_decoder_calls", 1)
				if v := get(); v.IsSet() && hasNewline(v.String()) {
					r.Violation(key, []string{"multiline_value_set", "route_" + name, tgt.kind}, map[string]any{"input": desc, "method": name}, "C14: %s(%s) left a set %s containing a line break", name, desc, tgt.kind)
				}
			}
		}
	}
	// Upgrade: Last-Event-Id header set directly on the request (net/http would refuse CR/LF on
	// the wire, but handlers can be called with any header map).
	for variant := 0; variant < 3; variant++ {
		req := httptest.NewRequest(http.MethodGet, "http://verif.invalid/", http.NoBody)
		var hv []string
		switch variant {
		case 0:
			hv = []string{s}
		case 1:
			hv = []string{s, "second"}
		case 2:
			hv = []string{"", s}
		}
		req.Header["Last-Event-Id"] = hv
		sess, err := sse.Upgrade(httptest.NewRecorder(), req)
		if err != nil {
			r.Violation(key, []string{"upgrade_failed"}, map[string]any{"header": desc}, "C14: Upgrade failed on a flushing recorder: %v", err)
			continue
		}
		first := hv[0]
		c14Judge(r, key, "Upgrade", "id", fmt.Sprintf("header[%d]=%s", variant, desc), first, true, sess.LastEventID, nil, false)
		if !hasNewline(first) && first != "" && (!sess.LastEventID.IsSet() || sess.LastEventID.String() != first) {
			r.Violation(key, []string{"upgrade_header_lost"}, map[string]any{"header": desc}, "C14: single-line Last-Event-Id header not taken over by Upgrade")
		}
		if first == "" && sess.LastEventID.IsSet() {
			r.Violation(key, []string{"upgrade_empty_header_set"}, map[string]any{"header": desc}, "C14: empty Last-Event-Id header produced a set ID")
		}
	}
}

func jsonEncodings(s string) []string {
	out := []string{}
	if b, err := json.Marshal(s); err == nil {
		out = append(out, string(b))
		// \u escapes for CR/LF
		e := strings.ReplaceAll(string(b), `\n`, `\u000a`)
		e = strings.ReplaceAll(e, `\r`, `\u000D`)
		if e != string(b) {
			out = append(out, e)
		}
	}
	return out
}

var c14JSONDocs = []string{
	`null`, `"a"`, `""`, `"a\nb"`, `"a\rb"`, `"\u000a"`, `"\u000d"`, `"\u000D\u000A"`, `"a\\nb"`, `123`, `true`, `{}`, `[]`, `["a\n"]`, `"😀"`,
	"\"a\nb\"", "\"a\rb\"", "\"\n\"", "\"1\n\ndata: injected\"", "\"a\r\n\"", "\"\r\"",
	`"\ud800"`, `"a b"`, `"\u0085"`, ` "a\n" `, `"a`, ``, `nul`, `"\n"`, `"x\r\ny"`, `"data: x\n\ndata: y"`,
}

func TestC14(t *testing.T) {
	r := fw.Start(t, "C14")
	defer r.Finish()
	alpha := []string{"a", "\r", "\n", ":", " "}
	maxLen := 5
	if r.Thorough() {
		maxLen = 7
	}
	na := smallCount(alpha, maxLen)
	for i := 0; i < na; i++ {
		if r.Mine("A", i) {
			c14String(r, fw.Key("A", i), smallString(alpha, i))
		}
	}
	r.Exhaustive(fmt.Sprintf("all strings up to length %d over {a,CR,LF,':',' '} through every construction route", maxLen))
	// a single line break at every offset 0..300 and around the usual block sizes (a scanner that
	// works in blocks is wrong at exactly one offset)
	offs := []int{}
	for o := 0; o <= 300; o++ {
		offs = append(offs, o)
	}
	for _, c := range []int{512, 1024, 2048, 4096, 8192} {
		for d := -2; d <= 2; d++ {
			offs = append(offs, c+d)
		}
	}
	for i, o := range offs {
		if !r.Mine("P", i) {
			continue
		}
		for k, nl := range []string{"\n", "\r", "\r\n"} {
			c14String(r, fw.Key("P", i*3+k), strings.Repeat("v", o)+nl+"data: injected")
			c14String(r, fw.Key("P", i*3+k), strings.Repeat("v", o)+nl)
		}
	}
	for i, s := range hostilePool {
		if r.Mine("B", i) && len(s) < 10000 {
			c14String(r, fw.Key("B", i), s)
		}
	}
	// raw JSON documents and non-string driver values
	for i, doc := range c14JSONDocs {
		if !r.Mine("J", i) {
			continue
		}
		key := fw.Key("J", i)
		r.Begin(key, doc)
		r.Eval(fw.Hash("c14j", doc), true)
		var decoded string
		isStr := json.Unmarshal([]byte(doc), &decoded) == nil && strings.TrimSpace(doc) != "null"
		v := sse.ID("old")
		err := v.UnmarshalJSON([]byte(strings.TrimSpace(doc)))
		c14Judge(r, key, "UnmarshalJSON-raw", "id", fw.Q(doc), decoded, isStr, v, err, true)
		w := sse.Type("old")
		err = json.Unmarshal([]byte(doc), &w)
		c14Judge(r, key, "UnmarshalJSON", "type", fw.Q(doc), decoded, isStr, w, err, true)
	}
	// Scan with non-string driver values
	if r.Mine("S", 1) {
		key := fw.Key("S", 1)
		r.Begin(key, "scan non-strings")
		for _, src := range []any{nil, 1, int64(2), 3.5, true, []string{"a\n"}, struct{}{}, []byte(nil), []byte{}} {
			v := sse.ID("old")
			err := v.Scan(src)
			c14Judge(r, key, "Scan(other)", "id", fmt.Sprintf("%T", src), "", false, v, err, true)
			w := sse.Type("old")
			err = w.Scan(src)
			c14Judge(r, key, "Scan(other)", "type", fmt.Sprintf("%T", src), "", false, w, err, true)
		}
	}
	// Message.UnmarshalText over wire texts from C01's generators
	nw := r.N(20000, 400000)
	for i := 0; i < nw; i++ {
		if !r.Mine("W", i) {
			continue
		}
		key := fw.Key("W", i)
		rng := r.Rand("W", i)
		var in string
		if i < len(c01Hand) {
			in = c01Hand[i]
		} else if rng.IntN(2) == 0 {
			in = c01GenB(rng.IntN(c01CountB(5)))
		} else {
			in = c01GenC(rng)
		}
		if len(in) > 20000 {
			continue
		}
		r.Begin(key, in)
		r.Eval(fw.Hash("c14w", in), strings.Contains(in, "id") || strings.Contains(in, "event"))
		m := sse.Message{}
		m.ID = sse.ID("old")
		inbuf := []byte(in)
		err := m.UnmarshalText(inbuf)
		desc := fw.Q(fw.Trunc(in, 120))
		idBefore, tyBefore := m.ID.String(), m.Type.String()
		for k := range inbuf {
			inbuf[k] = '\n'
		}
		if m.ID.String() != idBefore || m.Type.String() != tyBefore {
			r.Violation(key, []string{"value_aliases_input_buffer", "route_Message.UnmarshalText"}, map[string]any{"input": desc}, "C14: Message.UnmarshalText: ID/Type changed after the caller reused its input buffer")
		}
		c14Judge(r, key, "Message.UnmarshalText", "id", desc, "", false, m.ID, err, true)
		c14Judge(r, key, "Message.UnmarshalText", "type", desc, "", false, m.Type, err, true)
	}
}

// ---- C15: text round-trip and exact byte accounting -------------------------------

var errInjectedWrite = errors.New("injected write failure")

// c15SameAsModel decodes a wire text with the reference line parser and compares it with the model
// of the API calls. The exact bytes are the library's business; what they mean is the property's.
func c15SameAsModel(wire string, model *ref.Msg) bool {
	if model.Empty() {
		return wire == ""
	}
	got, n, ok := ref.DecodeMsg(wire)
	return ok && n == len(wire) && got.Same(model)
}

func c15Message(r *fw.Run, key string, b *builtMsg, faultAll bool) {
	var buf bytes.Buffer
	n, err := b.Msg.WriteTo(&buf)
	mt, merr := b.Msg.MarshalText()
	st := b.Msg.String()
	enc := buf.String() // the fault-free encoding: reference for the prefix checks below
	r.Eval(fw.Hash("c15", enc), len(b.Model.Lines) > 0 || b.Model.HasID || b.Model.HasType)
	r.Count("messages", 1)
	if err != nil || merr != nil || buf.String() != string(mt) || st != buf.String() || int(n) != buf.Len() {
		r.Violation(key, []string{"encoders_disagree"}, map[string]any{"ops": b.Ops}, "C15: WriteTo/MarshalText/String differ (n=%d len=%d)", n, buf.Len())
		return
	}
	// the bytes MarshalText returned belong to the caller: marshalling other messages afterwards
	// must not change them
	{
		other := &sse.Message{}
		other.AppendData("another message, longer than most of the generated ones ........................................")
		other.ID = sse.ID("other")
		for k := 0; k < 3; k++ {
			other.MarshalText()
			_ = other.String()
		}
		if string(mt) != buf.String() {
			r.Violation(key, []string{"marshaltext_result_overwritten"}, map[string]any{"ops": b.Ops, "now": fw.Q(fw.Trunc(string(mt), 200)), "was": fw.Q(fw.Trunc(buf.String(), 200))}, "C15: the slice returned by MarshalText changed after other messages were marshalled")
			return
		}
	}
	if !c15SameAsModel(enc, b.Model) {
		r.Violation(key, []string{"encoding_differs_from_model"}, map[string]any{"ops": b.Ops, "got": fw.Q(fw.Trunc(enc, 400)), "model": fw.Q(fw.Trunc(b.Model.Encode(), 400))},
			"C15: the encoding does not read back (reference line parser) as the fields and lines given through the API")
		return
	}
	if b.Model.Empty() {
		if n != 0 || buf.Len() != 0 {
			r.Violation(key, []string{"empty_message_writes"}, map[string]any{"ops": b.Ops}, "C15: a message with nothing to write produced %d bytes (n=%d)", buf.Len(), n)
		}
		// and it must not touch the writer in a way that counts bytes
		fwz := &mon.FaultWriter{FailAt: 0, Accept: 0, Err: errInjectedWrite}
		nz, _ := b.Msg.WriteTo(fwz)
		if nz != 0 {
			r.Violation(key, []string{"empty_message_writes"}, map[string]any{"ops": b.Ops}, "C15: empty message reported n=%d", nz)
		}
		return
	}
	// (a) round trip
	var m2 sse.Message
	m2.AppendData("stale")
	m2.ID = sse.ID("stale")
	if uerr := m2.UnmarshalText(mt); uerr != nil {
		r.Violation(key, []string{"roundtrip_unmarshal_error"}, map[string]any{"ops": b.Ops, "wire": fw.Q(fw.Trunc(enc, 400))}, "C15: UnmarshalText(MarshalText(m)) failed: %v", uerr)
	} else {
		re := m2.String()
		okFields := m2.ID.IsSet() == b.Model.HasID && m2.ID.String() == b.Model.ID &&
			m2.Type.IsSet() == b.Model.HasType && m2.Type.String() == b.Model.Type
		wantRetry := b.Model.RetryMs
		if wantRetry < 0 {
			wantRetry = 0
		}
		if m2.Retry.Milliseconds() != wantRetry || m2.Retry.Nanoseconds() != wantRetry*1e6 {
			okFields = false
		}
		if !c15SameAsModel(re, b.Model) || !okFields {
			r.Violation(key, []string{"roundtrip_differs"}, map[string]any{"ops": b.Ops, "wire": fw.Q(fw.Trunc(enc, 400)), "reencoded": fw.Q(fw.Trunc(re, 400))},
				"C15: UnmarshalText(MarshalText(m)) does not reproduce the message (fields ok=%v)", okFields)
		}
		r.Count("roundtrips", 1)
		// "UnmarshalText extracts the first event found": the same text followed by another message's
		var m3 sse.Message
		if terr := m3.UnmarshalText([]byte(enc + "id: tail\ndata: t1\n: tc\ndata: t2\n\n")); terr != nil {
			r.Violation(key, []string{"roundtrip_with_trailing_message"}, map[string]any{"ops": b.Ops, "wire": fw.Q(fw.Trunc(enc, 400))}, "C15: UnmarshalText(MarshalText(m) + another message) failed: %v", terr)
		} else if re3 := m3.String(); !c15SameAsModel(re3, b.Model) || m3.ID.IsSet() != b.Model.HasID || m3.ID.String() != b.Model.ID || m3.Type.IsSet() != b.Model.HasType || m3.Type.String() != b.Model.Type {
			r.Violation(key, []string{"roundtrip_with_trailing_message"}, map[string]any{"ops": b.Ops, "wire": fw.Q(fw.Trunc(enc, 400)), "reencoded": fw.Q(fw.Trunc(re3, 400))},
				"C15: UnmarshalText(MarshalText(m) + another message) does not reproduce m (the following message leaks into it, or m is cut short)")
		}
		// the receiver is used again for a message of the same shape (same ID, type, retry, number of
		// lines) and other line contents: what it then encodes to is the new message
		{
			v := b.Model.Clone()
			for li := range v.Lines {
				v.Lines[li].Text = "z" + strings.ReplaceAll(strings.ReplaceAll(v.Lines[li].Text, "\r", "r"), "\n", "n")
			}
			if len(v.Lines) > 0 {
				text2 := v.Encode()
				if err := m2.UnmarshalText([]byte(text2)); err == nil {
					if re2 := m2.String(); !c15SameAsModel(re2, v) {
						r.Violation(key, []string{"reencode_after_redecode_stale"}, map[string]any{"ops": b.Ops, "second_text": fw.Q(fw.Trunc(text2, 300)), "reencoded": fw.Q(fw.Trunc(re2, 300))},
							"C15: a Message that was encoded, then filled again by UnmarshalText with a message of the same shape, does not encode to the new message")
					}
				}
			}
		}
		// decode something else into the same receiver: a clone taken before must keep its content
		keep := m2.Clone()
		keepEnc := keep.String()
		if err := m2.UnmarshalText([]byte("id: other\ndata: o1\ndata: o2\n: oc\ndata: o3\n\n")); err == nil {
			if keep.String() != keepEnc {
				r.Violation(key, []string{"unmarshal_reuses_storage"}, map[string]any{"ops": b.Ops, "clone_before": fw.Q(fw.Trunc(keepEnc, 300)), "clone_after": fw.Q(fw.Trunc(keep.String(), 300))},
					"C15: decoding another text into the same receiver changed a clone taken from the first result")
			}
		}
	}
	// (b) fault injection at every Write call, for a plain io.Writer and for writers that offer the
	// optional WriteByte / WriteString methods as well (every call of any of them is one operation)
	wrap := map[string]func(*mon.FaultWriter) io.Writer{
		"plain":        func(w *mon.FaultWriter) io.Writer { return w },
		"bytewriter":   func(w *mon.FaultWriter) io.Writer { return mon.FaultByteWriter{FaultWriter: w} },
		"stringwriter": func(w *mon.FaultWriter) io.Writer { return mon.FaultStringWriter{FaultWriter: w} },
		"both":         func(w *mon.FaultWriter) io.Writer { return mon.FaultBothWriter{FaultWriter: w} },
	}
	variants := []string{"plain", []string{"bytewriter", "stringwriter", "both"}[len(enc)%3]}
	for _, variant := range variants {
		mk := wrap[variant]
		probe := &mon.FaultWriter{FailAt: -1}
		pn, perr := b.Msg.WriteTo(mk(probe))
		if perr != nil || int(pn) != len(enc) || probe.Buf.String() != enc {
			r.Violation(key, []string{"writer_variant_output_differs", variant}, map[string]any{"ops": b.Ops, "writer": variant, "n": pn, "err": fmt.Sprint(perr)}, "C15: WriteTo into a %s writer returned (%d, %v) and wrote %d bytes; the encoding has %d", variant, pn, perr, probe.Buf.Len(), len(enc))
			continue
		}
		W := probe.Calls
		r.Max("max_write_calls_per_message", int64(W))
		for k := 0; k < W; k++ {
			if W > 60 && k > 12 && k < W-12 {
				stride := W / 24
				if faultAll {
					stride = W / 96
				}
				if stride > 1 && k%stride != 0 {
					continue
				}
			}
			size := probe.CallSizes[k]
			tried := map[int]bool{}
			for _, j := range []int{0, 1, size - 1, size} {
				// j == size: the writer takes everything and still reports an error (a flush behind
				// the write failed) — also for the one-byte writes of the line ends
				if j < 0 || j > size || tried[j] {
					continue
				}
				tried[j] = true
				fwr := &mon.FaultWriter{FailAt: k, Accept: j, Err: errInjectedWrite}
				gn, gerr := b.Msg.WriteTo(mk(fwr))
				r.Count("faulted_writes", 1)
				r.Count("faulted_writes_"+variant, 1)
				acc := fwr.Buf.String()
				wit := map[string]any{"ops": b.Ops, "writer": variant, "fail_at_call": k, "accept": j, "n": gn, "accepted": len(acc), "err": fmt.Sprint(gerr)}
				switch {
				case gerr != errInjectedWrite:
					r.Violation(key, []string{"fault_error_lost"}, wit, "C15: WriteTo did not return the writer's error (got %v)", gerr)
				case int(gn) == len(acc)-1 && fwr.TookByteYetFailed:
					// the byte went through WriteByte, which reports no count: a failed WriteByte "took
					// nothing" as far as any caller can tell
					r.Count("writebyte_took_the_byte_and_failed", 1)
				case int(gn) != len(acc):
					r.Violation(key, []string{"fault_count_wrong"}, wit, "C15: WriteTo returned n=%d but the writer accepted %d bytes", gn, len(acc))
				case !strings.HasPrefix(enc, acc):
					r.Violation(key, []string{"fault_not_prefix"}, wit, "C15: bytes written before the failure are not a prefix of the encoding")
				case fwr.AfterFail != 0:
					r.Violation(key, []string{"write_after_failure"}, wit, "C15: %d Write calls after the writer had failed", fwr.AfterFail)
				}
			}
		}
	}
}

func TestC15(t *testing.T) {
	r := fw.Start(t, "C15")
	defer r.Finish()
	// hand-picked shapes
	shapes := []func() *builtMsg{
		func() *builtMsg { return &builtMsg{Msg: &sse.Message{}, Model: &ref.Msg{}} },
		func() *builtMsg {
			b := &builtMsg{Msg: &sse.Message{ID: sse.ID("")}, Model: &ref.Msg{HasID: true}}
			return b
		},
		func() *builtMsg {
			b := &builtMsg{Msg: &sse.Message{Type: sse.Type("")}, Model: &ref.Msg{HasType: true}}
			return b
		},
		func() *builtMsg {
			b := &builtMsg{Msg: &sse.Message{Retry: 1<<63 - 1}, Model: &ref.Msg{RetryMs: 9223372036854}}
			return b
		},
		func() *builtMsg {
			b := &builtMsg{Msg: &sse.Message{}, Model: &ref.Msg{}}
			b.Msg.AppendComment("only a comment")
			b.Model.Append(true, "only a comment")
			return b
		},
		func() *builtMsg {
			b := &builtMsg{Msg: &sse.Message{}, Model: &ref.Msg{}}
			b.Msg.AppendData("")
			b.Msg.AppendComment("")
			return b
		},
	}
	for i, f := range shapes {
		if r.Mine("S", i) {
			key := fw.Key("S", i)
			r.Begin(key, "shape")
			c15Message(r, key, f(), true)
		}
	}
	// every line length 0..300 and around the usual buffer sizes, as data and as comment line
	lens := []int{}
	for l := 0; l <= 300; l++ {
		lens = append(lens, l)
	}
	for _, c := range []int{512, 1024, 4096, 8192, 65536} {
		for d := -8; d <= 2; d++ {
			lens = append(lens, c+d)
		}
	}
	for i, l := range lens {
		if !r.Mine("L", i) {
			continue
		}
		key := fw.Key("L", i)
		r.Begin(key, fmt.Sprintf("line length %d", l))
		for _, comment := range []bool{false, true} {
			b := &builtMsg{Msg: &sse.Message{}, Model: &ref.Msg{}, Ops: []string{fmt.Sprintf("one line of %d bytes (comment=%v) + tail", l, comment)}}
			payload := strings.Repeat("y", l)
			if comment {
				b.Msg.AppendComment(payload)
			} else {
				b.Msg.AppendData(payload)
			}
			b.Model.Append(comment, payload)
			b.Msg.AppendData("tail")
			b.Model.Append(false, "tail")
			c15Message(r, key, b, false)
		}
	}
	n := r.N(6000, 60000)
	for i := 0; i < n; i++ {
		if !r.Mine("G", i) {
			continue
		}
		key := fw.Key("G", i)
		rng := r.Rand("G", i)
		b := genMessage(rng, true, rng.IntN(50) == 0)
		r.Begin(key, strings.Join(b.Ops, "; "))
		c15Message(r, key, b, r.Thorough())
		if i < 40 {
			r.Sample("message", 3, map[string]any{"ops": b.Ops, "wire": fw.Q(fw.Trunc(b.Model.Encode(), 160))})
		}
	}
}
