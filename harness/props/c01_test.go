package props

import (
	"fmt"
	"math/rand/v2"
	"regexp"
	"strconv"
	"strings"
	"sync"
	"testing"

	sse "github.com/tmaxmax/go-sse"

	"verifharness/fw"
	"verifharness/mon"
	"verifharness/ref"
)

// ---- C01: event-stream interpretation conforms to the WHATWG algorithm -------------

var c01Hand = []string{
	// spec examples
	"data: YHOO\ndata: +2\ndata: 10\n\n",
	": test stream\n\ndata: first event\nid: 1\n\ndata:second event\nid\n\ndata:  third event\n\n",
	"data\n\ndata\ndata\n\ndata:",
	"data:test\n\ndata: test\n\n",
	"event: add\ndata: 73857293\n\nevent: remove\ndata: 2153\n\nevent: add\ndata: 113411\n\n",
	// property text examples
	"\n\n\xEF\xBB\xBFdata: x\n\n", "\n\n\xEF\xBB\xBF", "\r\n\xEF\xBB\xBFid: 1\n\n",
	"retry: +5\n\n", "retry: -0\n\n", "retry: 5\n\n", "retry: 5x\n\n", "retry:\n\n", "retry: 0005\n\ndata: a\n\n",
	"data: a\r\n\r\ndata: b\r\n\r\n", "data: a\r\n\rdata: b\r\r", "data: a\n\r\ndata: b\n\r",
	// BOM positions
	"\xEF\xBB\xBFdata: x\n\n", "\xEF\xBB\xBF\xEF\xBB\xBFdata: x\n\n", "data: x\n\n\xEF\xBB\xBFdata: y\n\n",
	"data: \xEF\xBB\xBFx\n\n", "\xEF\xBBdata: x\n\n", "\xEF\xBB\xBF", "\xEF\xBB\xBF\n", "\xEF\xBB\xBF\n\n", "\xEF\xBB",
	"\xEF\xBB\xBFdata: x", "\n\xEF\xBB\xBFdata: x\n\n", "\r\xEF\xBB\xBFdata: x\n\n", "data: a\n\n\n\n\xEF\xBB\xBFdata: b\n\n",
	// endings
	"", "\n", "\r", "\r\n", "\n\n", "\n\n\n", ": c\n", ": c", "data: x\n", "data: x", "data: x\r", "data: x\r\n",
	"data: x\n\n\n", "data: x\n\n: c\n", "data: x\n\nfoo: bar\n", "data: x\n\n\r", "data: x\n\nid: 7", "data: x\n\nid: 7\n",
	"id: 1\n\ndata: x\nid: 2", "id: 1\n\ndata: x\nid: 2\n", "event: e\n", "event: e\n\n", "id\n\n", "id\n", "id",
	// NUL ids
	"id: a\x00b\ndata: x\n\n", "id: 1\n\nid: \x00\n\ndata: y\n\n", "id: \x00\n\n", "id: 1\ndata: a\n\nid:\ndata: b\n\n",
	// colon-less, look-alikes, name lengths
	"data\n\n", "event\n\n", "datax: 1\n\n", "Data: 1\n\n", "DATA: 1\n\n", "id : 1\n\n", " id: 1\n\n", "dat: 1\n\n",
	"retry\n\n", "event:e\ndata:d\nid:i\n\n", "events: 1\n\n", "retry1: 1\n\n", "abcde: 1\ndata: x\n\n", "abcdef: 1\ndata: x\n\n",
	"abcdefgh\ndata: x\n\n", "data:x:y\n\n", "data::\n\n", "data: : \n\n", ":data: x\n\n", "::\n\n", ":\n\n",
	"data:  two spaces\n\n", "data:\tx\n\n", "data: x \n\n", "data:\n\n", "data: \n\n", "data:  \n\n",
	"data: a\ndata: b\n\ndata: c\n\n", "data: a\ndata:\ndata: c\n\n", "data:\ndata:\n\n",
	"event: a\nevent: b\ndata: x\n\n", "event: a\n\ndata: x\n\n", "event: a\ndata: x\n\ndata: y\n\n",
	"id: 1\n\ndata: x\n\nid: 2\n\ndata: y\n\n", "id: 1\nid: 2\ndata: x\n\n",
	"data: x\xff\n\n", "\xffdata: x\n\n", "data: \xe2\x82\n\n", "data: é\n\n", "data: \x00\n\n", "\x00\n\n",
	"data: a\rdata: b\r\r", "data: a\r\ndata: b\r\n\r\n", "data: a\n\rdata: b\n\r\n", "\r\r\rdata: x\r\r",
	"data: x\n\ndata: y\n\ndata: z\n\n", "id: a\ndata: 1\n\ndata: 2\n\nid: b\ndata: 3\n\nevent: t\ndata: 4\n\n",
	"retry: 10\ndata: x\n\n", "retry: 10\n\nretry: 20\n\ndata: x\n\n", "retry: 1000000000000\n\n", "retry: 999999999999999999\n\n",
	"retry: 9223372036854775807\n\n", "retry: 9223372036854775808\n\n", "retry: 18446744073709551615\n\n", "retry: 18446744073709551616\n\n", "retry: 09223372036854775808\n\n",
	"retry: 1 \n\n", "retry:  1\n\n", "retry: 1.5\n\n", "retry: 0x10\n\n", "retry: 1e3\n\n", "retry: \xd9\xa1\n\n", "retry: 1_0\n\n",
}

var c01TokB = []string{"data", "event", "id", "retry", ":", " ", "x", "1", "+", "\n", "\r", ref.BOM, "\x00", "\xff"}

func c01GenB(idx int) string {
	// idx enumerates strings of 1..5 tokens: length-1 block first.
	n := len(c01TokB)
	l, block := 1, n
	for idx >= block {
		idx -= block
		block *= n
		l++
	}
	var b strings.Builder
	for i := 0; i < l; i++ {
		b.WriteString(c01TokB[idx%n])
		idx /= n
	}
	return b.String()
}

func c01CountB(maxTok int) int {
	n, tot, blk := len(c01TokB), 0, 1
	for i := 0; i < maxTok; i++ {
		blk *= n
		tot += blk
	}
	return tot
}

var c01Names = []string{"data", "data", "data", "event", "id", "id", "retry", "datax", "Data", "id ", " id", "dat", "retryy", "foo", "", "events", "i", "abcdef", "\xEF\xBB\xBFdata", "da\x00ta"}
var c01Seps = []string{":", ": ", ":  ", "", " :", ":\t"}
var c01Vals = []string{"x", "hello world", "1", "15", "+5", "-0", "007", "0", "1000", "a\x00b", "\x00", "é", "\xe2\x82", "\xff\xfe", ref.BOM, ref.BOM + "x", "", " ", "a:b", ": x", "data: y", "x ", "日本語", "1 ", " 1"}
var c01Terms = []string{"\n", "\n", "\n", "\r", "\r\n", "\r\n", "\n\n", "\r\r", "\r\n\r\n", "\n\r", "\r\n\n", "\n\r\n", "\n\n\n"}

func c01GenC(rng *rand.Rand) string {
	var b strings.Builder
	if rng.IntN(8) == 0 {
		b.WriteString(ref.BOM)
	}
	if rng.IntN(10) == 0 {
		b.WriteString(c01Terms[rng.IntN(len(c01Terms))])
		if rng.IntN(3) == 0 {
			b.WriteString(ref.BOM)
		}
	}
	nl := 1 + rng.IntN(24)
	for i := 0; i < nl; i++ {
		switch rng.IntN(12) {
		case 0:
			b.WriteString(": comment")
		case 1:
			// blank line(s)
		default:
			b.WriteString(c01Names[rng.IntN(len(c01Names))])
			b.WriteString(c01Seps[rng.IntN(len(c01Seps))])
			switch rng.IntN(40) {
			case 0:
				b.WriteString(strings.Repeat("v", 4080+rng.IntN(40)))
			case 1:
				b.WriteString(strings.Repeat("w", 65000+rng.IntN(1100)))
			case 2:
				b.WriteString(strings.Repeat("é", 2040+rng.IntN(16)))
			default:
				b.WriteString(c01Vals[rng.IntN(len(c01Vals))])
			}
		}
		if i == nl-1 && rng.IntN(4) == 0 {
			break // unterminated last line
		}
		b.WriteString(c01Terms[rng.IntN(len(c01Terms))])
	}
	return b.String()
}

func bomAfterBlank(in string) bool {
	t := strings.TrimLeft(in, "\r\n")
	return len(t) < len(in) && strings.HasPrefix(t, ref.BOM)
}

var reSignedRetry = regexp.MustCompile(`(^|[\r\n])retry: ?[+-][0-9]+($|[\r\n])`)

func c01Tags(in, entry string) []string {
	var t []string
	if bomAfterBlank(in) {
		t = append(t, "bom_after_only_leading_line_terminators")
	}
	if entry == "conn" && reSignedRetry.MatchString(in) {
		t = append(t, "signed_retry_value")
	}
	t = append(t, "entry_"+entry)
	return t
}

type c01Witness struct {
	Input    string   `json:"input_quoted"`
	Seg      segSpec  `json:"segmentation"`
	Entry    string   `json:"entry"`
	StopAt   int      `json:"stop_at"`
	Got      []string `json:"got_events"`
	GotEnd   string   `json:"got_end"`
	Want     []string `json:"want_events"`
	WantEnd  string   `json:"want_end"`
	Protocol []string `json:"iterator_protocol,omitempty"`
}

// c01Check runs one (input, segmentation, entry, stop) execution and compares.
func c01Check(r *fw.Run, key, in string, seg segSpec, entry string, stopAt int, wantRead, wantConn *ref.Out, big bool) {
	var obs readObs
	var want *ref.Out
	rd := seg.reader(in)
	switch entry {
	case "read":
		want = wantRead
		var cfg *sse.ReadConfig
		if big {
			cfg = &sse.ReadConfig{MaxEventSize: 1 << 20}
		}
		obs = runRead(rd, cfg, stopAt)
	case "conn":
		want = wantConn
		if big {
			obs = runConn(rd, nil, 1<<20)
		} else {
			obs = runConn(rd, nil, 0)
		}
	}
	wantEv := refEvents(*want)
	wantEnd := refEnd(*want)
	if seg.EndWrapEOF {
		// a failed read: events flushed only at a clean end are not dispatched, the error is reported as itself
		wantEv = wantEv[:0:0]
		for _, e := range want.Events {
			if !e.AtEOF {
				wantEv = append(wantEv, obsEvent{e.ID, e.Type, e.Data})
			}
		}
		wantEnd = "rerr_wrapeof"
	}
	if stopAt >= 0 {
		if stopAt < len(wantEv) {
			wantEv = wantEv[:stopAt+1]
			wantEnd = "stopped"
		}
	}
	r.Count("events_observed", int64(len(obs.Events)))
	r.Count("executions_"+entry, 1)
	r.Count("reads_issued", int64(rd.Calls()))
	bad := !eqEvents(obs.Events, wantEv) || obs.End != wantEnd || len(obs.Proto) > 0
	if entry == "conn" && obs.Attempts != 1 {
		bad = true
		obs.Proto = append(obs.Proto, "attempts != 1")
	}
	if bad {
		tags := c01Tags(in, entry)
		if eqEvents(obs.Events, wantEv) && len(obs.Proto) == 0 {
			tags = append(tags, "end_only:"+obs.End+"_want_"+wantEnd)
		}
		r.Violation(key, tags, c01Witness{
			Input: fw.Q(fw.Trunc(in, 600)), Seg: seg, Entry: entry, StopAt: stopAt,
			Got: fmtEvents(obs.Events), GotEnd: obs.End, Want: fmtEvents(wantEv), WantEnd: wantEnd, Protocol: obs.Proto,
		}, "C01 %s: events/end differ from the WHATWG reference (got %d events end=%s, want %d events end=%s)",
			entry, len(obs.Events), obs.End, len(wantEv), wantEnd)
	}
}

// c01Input runs every segmentation/entry/stop variant requested for one input.
func c01Input(r *fw.Run, key, in string, rng *rand.Rand, allCuts bool, randomSegs int, stops bool) {
	r.Begin(key, in)
	wr := ref.Interpret(in, ref.Opts{Adapt: true})
	wc := ref.Interpret(in, ref.Opts{Adapt: true, Conn: true})
	big := len(in) > 60000
	nontrivial := len(wr.Events) > 0 || wr.UnexpectedEOF || len(wc.Events) > 0
	r.Eval(fw.Hash("c01", in), nontrivial)
	if len(wr.Events) >= 2 {
		r.Count("inputs_with_2plus_events", 1)
	}
	segs := []segSpec{{Kind: "whole"}, {Kind: "whole", EOFWithLast: true}, {Kind: "whole", EndWrapEOF: true}}
	if len(in) <= 3000 {
		segs = append(segs, segSpec{Kind: "bytes"}, segSpec{Kind: "bytes", ZeroEvery: 3})
	}
	if allCuts && len(in) > 1 {
		for c := 1; c < len(in); c++ {
			segs = append(segs, segSpec{Kind: "cut", Cuts: []int{c}})
		}
	}
	for i := 0; i < randomSegs && len(in) > 1; i++ {
		n := 1 + rng.IntN(6)
		cuts := make([]int, n)
		for j := range cuts {
			cuts[j] = 1 + rng.IntN(len(in)-1)
		}
		s := segSpec{Kind: "random", Cuts: mon.NormCuts(cuts, len(in)), EOFWithLast: rng.IntN(4) == 0}
		if rng.IntN(5) == 0 {
			s.ZeroEvery = 2 + rng.IntN(3)
		}
		segs = append(segs, s)
	}
	for _, s := range segs {
		c01Check(r, key, in, s, "read", -1, &wr, &wc, big)
		c01Check(r, key, in, s, "conn", -1, &wr, &wc, big)
		r.Count("segmentations", 1)
	}
	if stops && len(wr.Events) >= 1 {
		for k := 0; k < len(wr.Events) && k < 8; k++ {
			c01Check(r, key, in, segSpec{Kind: "whole"}, "read", k, &wr, &wc, big)
			if len(in) <= 3000 {
				c01Check(r, key, in, segSpec{Kind: "bytes"}, "read", k, &wr, &wc, big)
			}
			r.Count("early_stops", 1)
		}
	}
	if len(wr.Events) > 0 {
		r.Sample("stream", 3, map[string]any{"input": fw.Q(fw.Trunc(in, 120)), "ref_events": fmtEvents(refEvents(wr)), "ref_end": refEnd(wr), "segmentations": len(segs)})
	}
}

func TestC01(t *testing.T) {
	r := fw.Start(t, "C01")
	defer r.Finish()

	// Self-check of the reference on the spec's own examples.
	selfcheckRef(t)

	// (R) stop after an event, then range over the same sequence again: the reader hands over one
	// complete event block per Read, so nothing was read ahead, and the second pass is a reading of
	// the rest of the stream (with the last event ID reached so far)
	nR := r.N(600, 12000)
	for i := 0; i < nR; i++ {
		if !r.Mine("R", i) {
			continue
		}
		key := fw.Key("R", i)
		rng := r.Rand("R", i)
		nb := 2 + rng.IntN(7)
		var blocks []string
		for k := 0; k < nb; k++ {
			switch rng.IntN(5) {
			case 0:
				blocks = append(blocks, fmt.Sprintf("id: i%d\ndata: e%d\n\n", k, k))
			case 1:
				blocks = append(blocks, fmt.Sprintf("event: t%d\ndata: e%d\ndata: more\n\n", k, k))
			case 2:
				blocks = append(blocks, fmt.Sprintf("event: only-a-type-%d\n\n", k))
			case 3:
				blocks = append(blocks, fmt.Sprintf(": note\ndata: e%d\r\n\r\n", k))
			default:
				blocks = append(blocks, fmt.Sprintf("data: e%d\n\n", k))
			}
		}
		stopAt := rng.IntN(nb - 1)
		whole := strings.Join(blocks, "")
		var cuts []int
		off := 0
		for _, b := range blocks[:nb-1] {
			off += len(b)
			cuts = append(cuts, off)
		}
		r.Begin(key, fmt.Sprintf("resume after event %d of %q", stopAt, whole))
		rd := &mon.ChunkReader{Data: whole, Cuts: cuts}
		seq := sse.Read(rd, nil)
		var first, second []obsEvent
		var secondErr error
		panicked := ""
		func() {
			defer func() {
				if p := recover(); p != nil {
					panicked = fmt.Sprint(p)
				}
			}()
			seq(func(e sse.Event, err error) bool {
				if err != nil {
					return false
				}
				first = append(first, obsEvent{strings.Clone(e.LastEventID), strings.Clone(e.Type), strings.Clone(e.Data)})
				return len(first)-1 < stopAt
			})
			seq(func(e sse.Event, err error) bool {
				if err != nil {
					secondErr = err
					return false
				}
				second = append(second, obsEvent{strings.Clone(e.LastEventID), strings.Clone(e.Type), strings.Clone(e.Data)})
				return true
			})
		}()
		r.Count("resumed_reads", 1)
		r.Eval(fw.Hash("R", whole, strconv.Itoa(stopAt)), true)
		wantFirst := refEvents(ref.Interpret(strings.Join(blocks[:stopAt+1], ""), ref.Opts{Adapt: true}))
		lastID := ""
		if len(wantFirst) > 0 {
			lastID = wantFirst[len(wantFirst)-1].ID
		}
		wantSecond := refEvents(ref.Interpret(strings.Join(blocks[stopAt+1:], ""), ref.Opts{Adapt: true, InitialID: lastID}))
		// whether the last event ID of the first pass carries over into the second is not fixed by the
		// statement: both readings are accepted
		wantSecondFresh := refEvents(ref.Interpret(strings.Join(blocks[stopAt+1:], ""), ref.Opts{Adapt: true}))
		if panicked != "" || secondErr != nil || !eqEvents(first, wantFirst) || !(eqEvents(second, wantSecond) || eqEvents(second, wantSecondFresh)) {
			r.Violation(key, []string{"resumed_read_differs"}, map[string]any{"stream": whole, "stop_after_event": stopAt, "first_pass": fmtEvents(first), "second_pass": fmtEvents(second), "want_second_pass": fmtEvents(wantSecond), "panic": panicked, "second_pass_error": fmt.Sprint(secondErr)},
				"C01 read: after stopping at event %d, a second pass over the same sequence yields %v (error %v, panic %q), want the events of the rest of the stream %v", stopAt, fmtEvents(second), secondErr, panicked, fmtEvents(wantSecond))
		}
	}

	// (A) hand-built streams: all cuts, all stops.
	for i, in := range c01Hand {
		if r.Mine("A", i) {
			c01Input(r, fw.Key("A", i), in, r.Rand("A", i), true, 4, true)
		}
	}
	// (B) exhaustive token strings.
	maxTok := 4
	if r.Thorough() {
		maxTok = 5
	}
	nb := c01CountB(maxTok)
	for i := 0; i < nb; i++ {
		if r.Mine("B", i) {
			in := c01GenB(i)
			// every single cut point for all strings up to 4 tokens; for 5-token strings in
			// the thorough tier as well.
			c01Input(r, fw.Key("B", i), in, r.Rand("B", i), true, 0, i%7 == 0)
		}
	}
	r.Exhaustive("all strings of 1.." + string(rune('0'+maxTok)) + " tokens over the 14-token alphabet x every single cut point x {whole, eof-with-last, byte-at-a-time, byte-at-a-time with empty reads} x {Read, Connection}")
	// (D) long streams: thousands of events, several hundred KB, whole / 4096-byte reads / random cuts
	nd := r.N(24, 400)
	for i := 0; i < nd; i++ {
		if !r.Mine("D", i) {
			continue
		}
		key := fw.Key("D", i)
		rng := r.Rand("D", i)
		in := c01GenLong(rng)
		r.Begin(key, fmt.Sprintf("long stream of %d bytes", len(in)))
		wr := ref.Interpret(in, ref.Opts{Adapt: true})
		wc := ref.Interpret(in, ref.Opts{Adapt: true, Conn: true})
		r.Eval(fw.Hash("c01D", strconv.Itoa(len(in)), in[:200]), true)
		r.Count("long_streams", 1)
		var cuts []int
		for j := 0; j < 40; j++ {
			cuts = append(cuts, 1+rng.IntN(len(in)-1))
		}
		for _, sg := range []segSpec{{Kind: "whole"}, {Kind: "every4096", Cuts: mon.Every(len(in), 4096)}, {Kind: "every1000", Cuts: mon.Every(len(in), 1000)}, {Kind: "random", Cuts: mon.NormCuts(cuts, len(in))}} {
			c01Check(r, key, in, sg, "read", -1, &wr, &wc, true)
			c01Check(r, key, in, sg, "conn", -1, &wr, &wc, true)
		}
	}
	// (N) overlapping Reads: a Read started inside another Read's callback, and Reads running in
	// several goroutines at once, must not disturb each other
	nn := r.N(400, 8000)
	for i := 0; i < nn; i++ {
		if !r.Mine("N", i) {
			continue
		}
		key := fw.Key("N", i)
		rng := r.Rand("N", i)
		a, b := c01GenC(rng), c01GenC(rng)
		if len(a) > 30000 || len(b) > 30000 {
			continue
		}
		r.Begin(key, "nested/concurrent")
		wa, wb := ref.Interpret(a, ref.Opts{Adapt: true}), ref.Interpret(b, ref.Opts{Adapt: true})
		var gotA, gotB []obsEvent
		nested := 0
		sse.Read(strings.NewReader(a), nil)(func(e sse.Event, err error) bool {
			if err != nil {
				return false
			}
			gotA = append(gotA, obsEvent{strings.Clone(e.LastEventID), strings.Clone(e.Type), strings.Clone(e.Data)})
			if nested < 3 {
				nested++
				gotB = gotB[:0]
				sse.Read(&mon.ChunkReader{Data: b, Cuts: mon.Every(len(b), 700)}, nil)(func(e2 sse.Event, err2 error) bool {
					if err2 == nil {
						gotB = append(gotB, obsEvent{strings.Clone(e2.LastEventID), strings.Clone(e2.Type), strings.Clone(e2.Data)})
					}
					return err2 == nil
				})
				if !eqEvents(gotB, refEvents(wb)) {
					r.Violation(key, []string{"nested_read_disturbed"}, map[string]any{"outer": fw.Q(fw.Trunc(a, 300)), "inner": fw.Q(fw.Trunc(b, 300)), "got": fmtEvents(gotB), "want": fmtEvents(refEvents(wb))}, "C01: a Read run inside another Read's callback yielded %d events, want %d", len(gotB), len(wb.Events))
				}
			}
			return true
		})
		if !eqEvents(gotA, refEvents(wa)) {
			r.Violation(key, []string{"nested_read_disturbed"}, map[string]any{"outer": fw.Q(fw.Trunc(a, 300)), "got": fmtEvents(gotA), "want": fmtEvents(refEvents(wa))}, "C01: a Read whose callback runs another Read yielded %d events, want %d", len(gotA), len(wa.Events))
		}
		// concurrent
		var wg sync.WaitGroup
		bad := make([]bool, 4)
		for g := 0; g < 4; g++ {
			in, want := a, wa
			if g%2 == 1 {
				in, want = b, wb
			}
			wg.Add(1)
			go func() {
				defer wg.Done()
				for rep := 0; rep < 3; rep++ {
					o := runRead(&mon.ChunkReader{Data: in, Cuts: mon.Every(len(in), 500+g)}, nil, -1)
					if !eqEvents(o.Events, refEvents(want)) || o.End != refEnd(want) || len(o.Proto) > 0 {
						bad[g] = true
					}
				}
			}()
		}
		wg.Wait()
		for g := range bad {
			if bad[g] {
				r.Violation(key, []string{"concurrent_read_disturbed"}, map[string]any{"a": fw.Q(fw.Trunc(a, 300)), "b": fw.Q(fw.Trunc(b, 300))}, "C01: Reads running concurrently in different goroutines disturbed each other")
				break
			}
		}
		r.Count("overlapping_read_cases", 1)
		r.Eval(fw.Hash("c01N", a, b), len(wa.Events) > 0 && len(wb.Events) > 0)
	}
	// (C) grammar-random streams under random multi-cut segmentations.
	nc := r.N(6000, 300000)
	for i := 0; i < nc; i++ {
		if r.Mine("C", i) {
			rng := r.Rand("C", i)
			in := c01GenC(rng)
			c01Input(r, fw.Key("C", i), in, rng, false, 3, i%3 == 0)
		}
	}
}

// c01GenLong builds a stream of thousands of events (hundreds of KB): ids only now and then (so
// the last event ID has to survive many buffer refills), all terminator styles, comments, types.
func c01GenLong(rng *rand.Rand) string {
	var b strings.Builder
	n := 1500 + rng.IntN(3000)
	for i := 0; i < n; i++ {
		t := c01Terms[rng.IntN(6)]
		if len(t) > 2 || t == "\n\n" || t == "\r\r" {
			t = "\n"
		}
		if i%97 == 0 {
			b.WriteString("id: id-" + strconv.Itoa(i) + t)
		}
		if rng.IntN(15) == 0 {
			b.WriteString("event: type" + strconv.Itoa(rng.IntN(4)) + t)
		}
		if rng.IntN(20) == 0 {
			b.WriteString(": keep-alive" + t)
		}
		b.WriteString("data: event number " + strconv.Itoa(i) + " " + strings.Repeat("p", rng.IntN(120)) + t)
		if rng.IntN(10) == 0 {
			b.WriteString("data: second line" + t)
		}
		b.WriteString(t)
	}
	return b.String()
}

func selfcheckRef(t *testing.T) {
	type tc struct {
		in   string
		o    ref.Opts
		want []obsEvent
		ueof bool
	}
	strict := ref.Opts{}
	ad := ref.Opts{Adapt: true}
	cases := []tc{
		{"data: YHOO\ndata: +2\ndata: 10\n\n", strict, []obsEvent{{"", "", "YHOO\n+2\n10"}}, false},
		{": test stream\n\ndata: first event\nid: 1\n\ndata:second event\nid\n\ndata:  third event\n\n", strict,
			[]obsEvent{{"1", "", "first event"}, {"", "", "second event"}, {"", "", " third event"}}, false},
		{"data\n\ndata\ndata\n\ndata:", strict, []obsEvent{{"", "", ""}, {"", "", "\n"}}, false},
		{"data:test\n\ndata: test\n\n", strict, []obsEvent{{"", "", "test"}, {"", "", "test"}}, false},
		{"event: e\n\ndata: x\n\n", strict, []obsEvent{{"", "", "x"}}, false},
		{"event: e\n\ndata: x\n\n", ad, []obsEvent{{"", "e", ""}, {"", "", "x"}}, false},
		{"data: x\n", ad, []obsEvent{{"", "", "x"}}, false},
		{"data: x", ad, nil, true},
		{"id: 1\n\ndata: x\nid: 2", ad, []obsEvent{{"1", "", ""}}, true},
		{"\n\n\xEF\xBB\xBFdata: x\n\n", ad, nil, false},
		{"\xEF\xBB\xBFdata: x\n\n", ad, []obsEvent{{"", "", "x"}}, false},
		{"retry: 5\n\n", ad, nil, false},
		{"retry: 5\n\n", ref.Opts{Adapt: true, Conn: true}, []obsEvent{{"", "", ""}}, false},
		{"retry: +5\n\n", ref.Opts{Adapt: true, Conn: true}, nil, false},
		{"data: a\r\n\r\ndata: b\r", ad, []obsEvent{{"", "", "a"}, {"", "", "b"}}, false},
		{"id: a\x00\ndata: x\n\n", ad, []obsEvent{{"", "", "x"}}, false},
	}
	for _, c := range cases {
		o := ref.Interpret(c.in, c.o)
		if !eqEvents(refEvents(o), c.want) || o.UnexpectedEOF != c.ueof {
			t.Fatalf("reference self-check failed on %q: got %v ueof=%v", c.in, refEvents(o), o.UnexpectedEOF)
		}
	}
}
