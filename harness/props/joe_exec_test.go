package props

import (
	"context"
	"encoding/binary"
	"errors"
	"fmt"
	"hash/fnv"
	"io"
	"net/http"
	"os"
	"runtime"
	"strconv"
	"strings"
	"sync"
	"sync/atomic"
	"testing"
	"testing/synctest"
	"time"

	sse "github.com/tmaxmax/go-sse"

	"verifharness/mon"
)

// ---- scenario description (JSON-able: it is the witness) ---------------------------------

type jMsg struct {
	Token  string   `json:"token"`
	Topics []string `json:"topics"`
	// BadID: the message violates the replayer's ID mode (carries an ID with automatic IDs, none
	// with manual IDs): Put rejects it, Publish returns that error, the message is still delivered.
	BadID bool `json:"bad_id,omitempty"`
	// EmptyID (manual IDs only): the message carries an ID that is set but empty.
	EmptyID bool `json:"empty_id,omitempty"`
}

type jSub struct {
	Name         string   `json:"name"`
	Topics       []string `json:"topics"`
	StartAt      int64    `json:"start_at"`
	LastID       string   `json:"last_id,omitempty"`
	LastIDSet    bool     `json:"last_id_set,omitempty"`
	LastIDClass  string   `json:"last_id_class,omitempty"`
	FailSendAt   int      `json:"fail_send_at,omitempty"`
	FailFlushAt  int      `json:"fail_flush_at,omitempty"`
	CancelOnFail bool     `json:"cancel_on_fail,omitempty"`
	CancelAt     int64    `json:"cancel_at"` // -1: never
	SendLatency  int64    `json:"send_latency,omitempty"`
	// AliasPrev: Topics is the previous subscriber's list plus one topic, built by append on the same array
	AliasPrev bool `json:"alias_prev,omitempty"`
}

type jPub struct {
	StartAt int64  `json:"start_at"`
	Gap     int64  `json:"gap"`
	Msgs    []jMsg `json:"msgs"`
	// Same: publish one and the same *Message value len(Msgs) times (C19)
}

type jShutdown struct {
	At  int64  `json:"at"`
	Ctx string `json:"ctx"` // "bg" | "cancelled" | "deadline:<ns>"
}

type jHook struct {
	Kind  string           `json:"kind"` // "none" | "random" | "fixed"
	P     float64          `json:"p,omitempty"`
	Dmax  int64            `json:"dmax,omitempty"`
	Fixed map[string]int64 `json:"fixed,omitempty"`
	Seed  uint64           `json:"seed,omitempty"`
	// Nth: delay the n-th hook invocation (1-based, global order) by the given amount.
	Nth map[uint64]int64 `json:"nth,omitempty"`
}

type jScenario struct {
	Replayer    string         `json:"replayer"` // "none" | "rec" | "finite:N:auto|manual" | "valid:auto|manual"
	PutFault    map[int]string `json:"put_fault,omitempty"`
	ReplayFault map[int]string `json:"replay_fault,omitempty"`
	Prefix      []jMsg         `json:"prefix,omitempty"`
	// PrefixGaps[i]: virtual ns slept before the i-th prefix publish; ValidTTL: TTL of a "valid:*" replayer (0 = one hour).
	PrefixGaps []int64 `json:"prefix_gaps,omitempty"`
	ValidTTL   int64   `json:"valid_ttl,omitempty"`
	// PutLatency / ReplayLatency: virtual ns spent inside every Put / Replay call
	// ErrKind: flavour of every injected error of this scenario (mon.ErrKinds)
	ErrKind              string      `json:"err_kind,omitempty"`
	PutLatency           int64       `json:"put_latency,omitempty"`
	ReplayLatency        int64       `json:"replay_latency,omitempty"`
	Subs                 []jSub      `json:"subs"`
	Pubs                 []jPub      `json:"pubs"`
	Shutdowns            []jShutdown `json:"shutdowns,omitempty"`
	Hook                 jHook       `json:"hook"`
	Probe                bool        `json:"probe"`
	ZeroJoeShutdownFirst bool        `json:"shutdown_first,omitempty"`
	// ValRep: the Replayer field holds a struct value (a thin decorator), not a pointer
	ValRep bool `json:"replayer_by_value,omitempty"`
	Procs  int  `json:"gomaxprocs,omitempty"`
}

func (sc *jScenario) autoIDs() bool   { return strings.HasSuffix(sc.Replayer, ":auto") }
func (sc *jScenario) manualIDs() bool { return !sc.autoIDs() }

// ---- trace ---------------------------------------------------------------------------------

type jSubTrace struct {
	VRet        time.Duration // virtual time at which Subscribe returned
	Spec        *jSub
	CallStamp   int64
	RetStamp    int64
	Ret         error
	Returned    bool
	CancelStamp atomic.Int64 // first cancellation request (0 = none)
	Client      *mon.RecClient
	Calls       []mon.Call
	FailErr     error
}

type jPubTrace struct {
	Msg       jMsg
	Publisher int
	Seq       int
	CallStamp int64
	RetStamp  int64
	Ret       error
	Returned  bool
	VTimeCall time.Duration
}

type jSdTrace struct {
	Spec      jShutdown
	CallStamp int64
	RetStamp  int64
	Ret       error
	Returned  bool
	Final     bool
	VDeadline time.Duration
	VRet      time.Duration
}

type jIdleCheck struct {
	At      int64
	Idle    bool
	Missing []string // subscribers whose last successful Send has no Flush after it
}

type jTrace struct {
	Subs      []*jSubTrace
	Pubs      []*jPubTrace
	Shutdowns []*jSdTrace
	Log       []mon.RLog
	HookSig   uint64
	HookCalls int
	Points    map[string]int
	Panic     string
	Stacks    string
	Idle      []jIdleCheck
	HasRec    bool
}

// ---- hook ---------------------------------------------------------------------------------

type hookState struct {
	pol      jHook
	ctr      atomic.Uint64
	sleepers atomic.Int32
	mu       sync.Mutex
	sig      []byte
	calls    int
	points   map[string]int
}

func (h *hookState) fn(point string) {
	n := h.ctr.Add(1)
	h.mu.Lock()
	h.calls++
	h.points[point]++
	if len(h.sig) < 4096 {
		h.sig = append(h.sig, point...)
		h.sig = append(h.sig, ';')
	}
	h.mu.Unlock()
	var d int64
	switch h.pol.Kind {
	case "random":
		f := fnv.New64a()
		var b [16]byte
		binary.LittleEndian.PutUint64(b[:8], h.pol.Seed)
		binary.LittleEndian.PutUint64(b[8:], n)
		f.Write(b[:])
		f.Write([]byte(point))
		x := f.Sum64()
		if float64(x%10000)/10000 < h.pol.P && h.pol.Dmax > 0 {
			d = 1 + int64((x>>20)%uint64(h.pol.Dmax))
		}
		if fx, ok := h.pol.Fixed[point]; ok {
			d += fx
		}
	case "fixed":
		d = h.pol.Fixed[point]
	}
	if nd, ok := h.pol.Nth[n]; ok {
		d += nd
	}
	if d > 0 {
		h.sleepers.Add(1)
		time.Sleep(time.Duration(d))
		h.sleepers.Add(-1)
	}
}

// ---- executor -----------------------------------------------------------------------------

// jQuiet is a virtual quiet period, longer than anything a scenario can keep Joe busy with (a
// stalled client takes 2 s of virtual time per call).
const jQuiet = time.Hour

func buildReplayer(kind string, validTTL int64) (sse.Replayer, error) {
	parts := strings.Split(kind, ":")
	switch parts[0] {
	case "rec", "none":
		return nil, nil
	case "finite":
		n, _ := strconv.Atoi(parts[1])
		return sse.NewFiniteReplayer(n, parts[2] == "auto")
	case "valid":
		ttl := 1000 * time.Hour
		if validTTL > 0 {
			ttl = time.Duration(validTTL)
		}
		return sse.NewValidReplayer(ttl, parts[1] == "auto")
	}
	return nil, fmt.Errorf("unknown replayer %q", kind)
}

func (sc *jScenario) newMessage(m jMsg) *sse.Message {
	msg := &sse.Message{}
	mon.ShapeMsg(msg, m.Token)
	if sc.manualIDs() != m.BadID {
		msg.ID = sse.ID("id-" + m.Token)
		if m.EmptyID {
			msg.ID = sse.ID("")
		}
	}
	return msg
}

// runJoe executes the scenario inside a synctest bubble and returns what was observed at
// Joe's public boundary.
func runJoe(t *testing.T, sc *jScenario) (tr *jTrace) {
	tr = &jTrace{Points: map[string]int{}}
	hs := &hookState{pol: sc.Hook, points: map[string]int{}}
	if sc.Procs > 0 {
		defer runtime.GOMAXPROCS(runtime.GOMAXPROCS(sc.Procs))
	}
	defer func() {
		sse.SetVerifHook(nil)
		hs.mu.Lock()
		f := fnv.New64a()
		f.Write(hs.sig)
		tr.HookSig = f.Sum64()
		tr.HookCalls = hs.calls
		for k, v := range hs.points {
			tr.Points[k] = v
		}
		hs.mu.Unlock()
		if r := recover(); r != nil {
			tr.Panic = fmt.Sprint(r)
			buf := make([]byte, 1<<18)
			buf = buf[:runtime.Stack(buf, true)]
			tr.Stacks = filterStacks(string(buf))
		}
	}()
	sse.SetVerifHook(hs.fn)

	synctest.Test(t, func(t *testing.T) {
		clock := &mon.Clock{}
		joe := &sse.Joe{}
		var rec *mon.RecReplayer
		if sc.Replayer != "none" {
			inner, err := buildReplayer(sc.Replayer, sc.ValidTTL)
			if err != nil {
				panic(err)
			}
			rec = &mon.RecReplayer{Inner: inner, Clock: clock, PutFault: sc.PutFault, ReplayFault: sc.ReplayFault, PutLatency: time.Duration(sc.PutLatency), ReplayLatency: time.Duration(sc.ReplayLatency), ErrKind: sc.ErrKind, WrapTargets: jWrapTargets}
			joe.Replayer = rec
			if sc.ValRep {
				joe.Replayer = valReplayer{rec} // a Replayer that is a struct value, not a pointer
			}
			tr.HasRec = true
		}
		base := time.Now()
		sleepUntil := func(at int64) {
			if d := time.Until(base.Add(time.Duration(at))); d > 0 {
				time.Sleep(d)
			}
		}
		var pending atomic.Int32 // Publish calls in flight

		doPublish := func(pt *jPubTrace, msg *sse.Message) {
			pending.Add(1)
			pt.VTimeCall = time.Since(base)
			pt.CallStamp = clock.Tick()
			// Joe gets its own copy of the topic list: the scenario's list is what the oracles read
			pt.Ret = joe.Publish(msg, append([]string(nil), pt.Msg.Topics...))
			pt.RetStamp = clock.Tick()
			pt.Returned = true
			pending.Add(-1)
		}
		doShutdown := func(st *jSdTrace) {
			ctx := context.Background()
			var cancel context.CancelFunc = func() {}
			switch {
			case st.Spec.Ctx == "cancelled":
				ctx, cancel = context.WithCancel(ctx)
				cancel()
			case strings.HasPrefix(st.Spec.Ctx, "deadline:"):
				d, _ := strconv.ParseInt(st.Spec.Ctx[len("deadline:"):], 10, 64)
				st.VDeadline = time.Since(base) + time.Duration(d)
				ctx, cancel = context.WithTimeout(ctx, time.Duration(d))
			case st.Spec.Ctx == "cancelled_cause":
				c2, cc := context.WithCancelCause(ctx)
				cc(errShutdownCause)
				ctx, cancel = c2, func() {}
			case strings.HasPrefix(st.Spec.Ctx, "deadline_cause:"):
				d, _ := strconv.ParseInt(st.Spec.Ctx[len("deadline_cause:"):], 10, 64)
				st.VDeadline = time.Since(base) + time.Duration(d)
				ctx, cancel = context.WithTimeoutCause(ctx, time.Duration(d), errShutdownCause)
			}
			defer cancel()
			st.CallStamp = clock.Tick()
			st.Ret = joe.Shutdown(ctx)
			st.RetStamp = clock.Tick()
			st.VRet = time.Since(base)
			st.Returned = true
		}

		if sc.ZeroJoeShutdownFirst {
			st := &jSdTrace{Spec: jShutdown{Ctx: "bg"}}
			tr.Shutdowns = append(tr.Shutdowns, st)
			doShutdown(st)
		}

		// phase 0: prefix, published sequentially
		for i, m := range sc.Prefix {
			if i < len(sc.PrefixGaps) && sc.PrefixGaps[i] > 0 {
				time.Sleep(time.Duration(sc.PrefixGaps[i]))
			}
			pt := &jPubTrace{Msg: m, Publisher: -1, Seq: i}
			tr.Pubs = append(tr.Pubs, pt)
			doPublish(pt, sc.newMessage(m))
		}
		base = time.Now()

		var wgSubs, wgPubs, wgMisc sync.WaitGroup
		builtTopics := make([][]string, len(sc.Subs))
		for i := range sc.Subs {
			spec := &sc.Subs[i]
			st := &jSubTrace{Spec: spec}
			tr.Subs = append(tr.Subs, st)
			ctx, cancel := context.WithCancel(context.Background())
			if i%2 == 1 {
				// every other subscriber's context carries a cancellation cause of its own
				c2, cc := context.WithCancelCause(context.Background())
				ctx, cancel = c2, func() { cc(errSubscriberCause) }
			}
			cl := &mon.RecClient{Name: spec.Name, Clock: clock, FailSendAt: spec.FailSendAt, FailFlushAt: spec.FailFlushAt}
			if spec.FailSendAt > 0 || spec.FailFlushAt > 0 {
				cl.Err = mon.NewInjected("client:"+spec.Name, spec.FailSendAt*100+spec.FailFlushAt, sc.ErrKind, jWrapTargets)
				st.FailErr = cl.Err
			}
			cl.OnCall = func(op string, n int, failing bool) {
				if spec.SendLatency > 0 {
					time.Sleep(time.Duration(spec.SendLatency))
				}
				if failing && spec.CancelOnFail {
					st.CancelStamp.CompareAndSwap(0, clock.Tick())
					cancel()
				}
			}
			st.Client = cl
			// Joe gets its own slices (the scenario's lists are what the oracles read); they have spare
			// room, and an "alias" list is the previous one extended in place
			var tp []string
			if spec.AliasPrev && i > 0 && len(builtTopics[i-1]) > 0 && len(spec.Topics) > len(builtTopics[i-1]) && eqStrings(spec.Topics[:len(builtTopics[i-1])], sc.Subs[i-1].Topics) {
				prev := builtTopics[i-1]
				tp = append(prev[:len(prev):cap(prev)], spec.Topics[len(prev):]...)
			} else {
				tp = append(make([]string, 0, len(spec.Topics)+4), spec.Topics...)
			}
			builtTopics[i] = tp
			var client sse.MessageWriter = cl
			if i%3 == 2 {
				// a MessageWriter that is a struct value with func and slice fields (not comparable)
				client = funcClient{send: cl.Send, flush: cl.Flush, pad: []int{i}, name: cl.Name}
			}
			sub := sse.Subscription{Client: client, Topics: tp}
			if spec.LastIDSet {
				sub.LastEventID = sse.ID(spec.LastID)
			}
			wgSubs.Add(1)
			go func() {
				defer wgSubs.Done()
				defer cancel()
				sleepUntil(spec.StartAt)
				st.CallStamp = clock.Tick()
				st.Ret = joe.Subscribe(ctx, sub)
				st.VRet = time.Since(base)
				st.RetStamp = clock.Tick()
				st.Returned = true
			}()
			if spec.CancelAt >= 0 {
				wgMisc.Add(1)
				go func() {
					defer wgMisc.Done()
					sleepUntil(spec.CancelAt)
					st.CancelStamp.CompareAndSwap(0, clock.Tick())
					cancel()
				}()
			}
		}
		for pi := range sc.Pubs {
			p := &sc.Pubs[pi]
			pts := make([]*jPubTrace, len(p.Msgs))
			for k, m := range p.Msgs {
				pts[k] = &jPubTrace{Msg: m, Publisher: pi, Seq: k}
				tr.Pubs = append(tr.Pubs, pts[k])
			}
			wgPubs.Add(1)
			go func() {
				defer wgPubs.Done()
				sleepUntil(p.StartAt)
				for k, m := range p.Msgs {
					doPublish(pts[k], sc.newMessage(m))
					if p.Gap > 0 {
						time.Sleep(time.Duration(p.Gap))
					}
				}
			}()
		}
		for _, sd := range sc.Shutdowns {
			st := &jSdTrace{Spec: sd}
			tr.Shutdowns = append(tr.Shutdowns, st)
			wgMisc.Add(1)
			go func() {
				defer wgMisc.Done()
				sleepUntil(st.Spec.At)
				doShutdown(st)
			}()
		}

		idleCheck := func() {
			synctest.Wait()
			ic := jIdleCheck{At: clock.Now()}
			ic.Idle = pending.Load() == 0 && hs.sleepers.Load() == 0
			for _, st := range tr.Subs {
				if st.Client.InCall() {
					ic.Idle = false
				}
			}
			if ic.Idle {
				for _, st := range tr.Subs {
					calls := st.Client.Calls()
					last := -1
					for i, c := range calls {
						if c.Op == "send" {
							last = i
						}
					}
					if last >= 0 && !calls[last].Err {
						ok := false
						for _, c := range calls[last+1:] {
							if c.Op == "flush" {
								ok = true
							}
						}
						if !ok {
							ic.Missing = append(ic.Missing, st.Spec.Name)
						}
					}
				}
			}
			tr.Idle = append(tr.Idle, ic)
		}

		wgPubs.Wait()
		time.Sleep(jQuiet)
		idleCheck()
		if sc.Probe {
			pt := &jPubTrace{Msg: jMsg{Token: "probe", Topics: allTopics}, Publisher: -2}
			tr.Pubs = append(tr.Pubs, pt)
			doPublish(pt, sc.newMessage(pt.Msg))
			time.Sleep(jQuiet)
			idleCheck()
		}
		wgMisc.Wait()
		fin := &jSdTrace{Spec: jShutdown{Ctx: "bg"}, Final: true}
		tr.Shutdowns = append(tr.Shutdowns, fin)
		doShutdown(fin)
		wgSubs.Wait()
		// A Shutdown that lost the race, or whose context ended, does not wait for Joe: give Joe's
		// goroutine (virtual) time to finish what it is doing and exit. If it never exits, the bubble
		// cannot end and the runtime reports it.
		time.Sleep(jQuiet)
		for _, st := range tr.Subs {
			st.Calls = st.Client.Calls()
		}
		if rec != nil {
			tr.Log = rec.Log()
		}
	})
	return tr
}

var errShutdownCause = errors.New("injected shutdown-context cause")

var allTopics = append([]string{"a", "b", "c", sse.DefaultTopic, "a,b", "b,a", "a b", "a\x00b", "a|b"}, func() []string {
	var u []string
	for i := 0; i < 20; i++ {
		u = append(u, "topic-"+strconv.Itoa(i))
	}
	return u
}()...)

var errSubscriberCause = errors.New("subscriber's own cancellation cause")

// funcClient is a MessageWriter held by value whose type is not comparable.
type funcClient struct {
	send  func(*sse.Message) error
	flush func() error
	pad   []int
	name  string
}

func (f funcClient) Send(m *sse.Message) error { return f.send(m) }
func (f funcClient) Flush() error              { return f.flush() }

func (f funcClient) ClientName() string { return f.name }

// valReplayer is a Replayer held by value.
type valReplayer struct{ r *mon.RecReplayer }

func (v valReplayer) Put(m *sse.Message, topics []string) (*sse.Message, error) {
	return v.r.Put(m, topics)
}
func (v valReplayer) Replay(s sse.Subscription) error { return v.r.Replay(s) }

// jWrapTargets: what injected errors may wrap (they stay failures of their own).
var jWrapTargets = map[string]error{
	"wraps_canceled":        context.Canceled,
	"wraps_deadline":        context.DeadlineExceeded,
	"wraps_eof":             io.EOF,
	"wraps_no_topic":        sse.ErrNoTopic,
	"wraps_provider_closed": sse.ErrProviderClosed,
	"wraps_os_deadline":     os.ErrDeadlineExceeded,
	"wraps_not_supported":   http.ErrNotSupported,
}

func filterStacks(s string) string {
	var out []string
	for _, g := range strings.Split(s, "\n\n") {
		if strings.Contains(g, "go-sse") && !strings.Contains(g, "runtime.Stack") {
			if len(g) > 1500 {
				g = g[:1500] + "…"
			}
			out = append(out, g)
		}
	}
	if len(out) > 12 {
		out = out[:12]
	}
	return strings.Join(out, "\n\n")
}
