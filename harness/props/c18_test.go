package props

import (
	"errors"
	"fmt"
	"runtime"
	"strconv"
	"strings"
	"testing"
	"time"
	"weak"

	sse "github.com/tmaxmax/go-sse"

	"verifharness/fw"
	"verifharness/mon"
)

// ---- C18: replayers retain no evicted or expired messages ------------------------------

type c18Probe struct {
	wp      weak.Pointer[sse.Message]
	tok     string
	putTime time.Time
}

// c18Put allocates the message in its own frame, puts it and returns only a weak pointer to
// the message the replayer stored (the clone in automatic-ID mode).
//
//go:noinline
func c18Put(rp sse.Replayer, tok string, auto bool, topics []string) (weak.Pointer[sse.Message], error) {
	m := &sse.Message{}
	m.AppendData(tok)
	if !auto {
		m.ID = sse.ID("id-" + tok)
	}
	got, err := rp.Put(m, topics)
	if err != nil || got == nil {
		return weak.Pointer[sse.Message]{}, err
	}
	return weak.Make(got), nil
}

//go:noinline
func c18Alive(p weak.Pointer[sse.Message]) bool { return p.Value() != nil }

var c18ReplayCalls int

//go:noinline
func c18Replay(rp sse.Replayer, id string, set bool) int {
	cl := &mon.RecClient{}
	// every third replay goes to a client whose first, second or third Send fails
	c18ReplayCalls++
	if c18ReplayCalls%3 == 0 {
		cl.FailSendAt = 1 + (c18ReplayCalls/3)%3
		cl.Err = errors.New("injected Send failure during a replay")
	}
	sub := sse.Subscription{Client: cl, Topics: []string{"a", "b"}}
	if set {
		sub.LastEventID = sse.ID(id)
	}
	rp.Replay(sub)
	return len(cl.Calls())
}

func c18GC() {
	runtime.GC()
	runtime.GC()
}

func TestC18(t *testing.T) {
	r := fw.Start(t, "C18")
	defer r.Finish()

	// (A) FiniteReplayer
	nA := r.N(2500, 60000)
	caps := []int{2, 3, 4, 5, 7, 8, 16}
	for i := 0; i < nA; i++ {
		if !r.Mine("A", i) {
			continue
		}
		key := fw.Key("A", i)
		rng := r.Rand("A", i)
		capN := caps[rng.IntN(len(caps))]
		if i%60 == 11 {
			capN = []int{100, 300, 1000}[rng.IntN(3)] // hundreds of slots, probed at the end only
		}
		auto := rng.IntN(2) == 0
		rp, _ := sse.NewFiniteReplayer(capN, auto)
		nops := 3 + rng.IntN(3*capN+4)
		r.Begin(key, fmt.Sprintf("finite cap=%d auto=%v ops=%d", capN, auto, nops))
		var probes []c18Probe
		var sig strings.Builder
		every := 1
		if nops > 24 {
			every = 4
		}
		if nops > 200 {
			every = 1 << 30
		}
		bad := false
		for k := 0; k < nops && !bad; k++ {
			if rng.IntN(5) == 0 && len(probes) > 0 {
				id := "id-" + probes[rng.IntN(len(probes))].tok
				if auto {
					id = strconv.Itoa(rng.IntN(len(probes)))
				}
				r.Count("replay_calls", int64(c18Replay(rp, id, true)))
				sig.WriteByte('R')
				continue
			}
			if rng.IntN(8) == 0 {
				// rejected put: must not be retained either (nothing to probe: it never got in)
				rp.Put(&sse.Message{}, nil)
				sig.WriteByte('X')
				continue
			}
			tok := "m" + strconv.Itoa(len(probes))
			wp, err := c18Put(rp, tok, auto, []string{[]string{"a", "b"}[rng.IntN(2)]})
			if err != nil {
				r.Violation(key, []string{"valid_put_rejected"}, nil, "C18: Put failed: %v", err)
				bad = true
				break
			}
			probes = append(probes, c18Probe{wp: wp, tok: tok})
			sig.WriteByte('P')
			if k%every != 0 && k != nops-1 {
				continue
			}
			c18GC()
			r.Count("gc_probes", 1)
			lo := len(probes) - capN
			for j, p := range probes {
				alive := c18Alive(p.wp)
				if j < lo && alive {
					sh := mon.ProbeShape(rp)
					r.Violation(key, []string{"evicted_message_reachable", "finite"}, map[string]any{"capacity": capN, "auto": auto, "ops": sig.String(), "message": p.tok, "puts": len(probes), "shape": fmt.Sprintf("%+v", sh)},
						"C18: FiniteReplayer(%d) after %d puts still keeps %s reachable (only the last %d may be)", capN, len(probes), p.tok, capN)
					bad = true
					break
				}
				if j >= lo && j >= 0 {
					if alive {
						r.Count("live_controls_ok", 1)
					} else {
						r.Count("live_controls_dead", 1)
					}
				}
				if j < lo {
					r.Count("dead_confirmed", 1)
				}
			}
			if sh := mon.ProbeShape(rp); sh.OK && sh.NonNilOutsideLiveRegion > 0 {
				r.Violation(key, []string{"slot_outside_live_range_populated", "finite"}, map[string]any{"capacity": capN, "ops": sig.String(), "shape": fmt.Sprintf("%+v", sh)}, "C18: %d populated slots outside the live range of the ring", sh.NonNilOutsideLiveRegion)
				bad = true
			}
		}
		r.Eval(fw.Hash("A", fmt.Sprint(capN, auto), sig.String()), len(probes) > capN)
		runtime.KeepAlive(rp)
		if i < 16 {
			r.Sample("finite_history", 1, map[string]any{"capacity": capN, "auto": auto, "ops": sig.String()})
		}
	}

	// (B) ValidReplayer
	nB := r.N(2500, 60000)
	for i := 0; i < nB; i++ {
		if !r.Mine("B", i) {
			continue
		}
		key := fw.Key("B", i)
		rng := r.Rand("B", i)
		ttl := []time.Duration{10, 100, 1000}[rng.IntN(3)]
		auto := rng.IntN(2) == 0
		rp, _ := sse.NewValidReplayer(ttl, auto)
		now := c09Epoch
		rp.Now = func() time.Time { return now }
		gcInt := []time.Duration{0, ttl / 4, ttl / 2, ttl, 3 * ttl, 1}[rng.IntN(6)]
		rp.GCInterval = gcInt
		nops := 5 + rng.IntN(60)
		if i%60 == 13 {
			nops = 600 + rng.IntN(1200) // bursts of hundreds of events: the ring grows past 1024 slots
		}
		r.Begin(key, fmt.Sprintf("valid ttl=%d gc=%d auto=%v ops=%d", ttl, gcInt, auto, nops))
		var probes []c18Probe
		var ops []string
		var lastCollect time.Time // time of the last collection that is certain under the conservative reading
		first := true
		bad := false
		burst := 0
		explicitSeen := false
		noExplicit := rng.IntN(2) == 0 // half of the histories never call GC() so that Put-triggered collections stay judged
		check := func(why string) {
			c18GC()
			r.Count("gc_probes", 1)
			for _, p := range probes {
				expired := !p.putTime.Add(ttl).After(now)
				alive := c18Alive(p.wp)
				if expired && alive {
					sh := mon.ProbeShape(rp)
					r.Violation(key, []string{"expired_message_reachable", "valid", why}, map[string]any{"ttl": int64(ttl), "gc_interval": int64(gcInt), "auto": auto, "ops": ops, "message": p.tok, "put_at": int64(p.putTime.Sub(c09Epoch)), "now": int64(now.Sub(c09Epoch)), "shape": fmt.Sprintf("%+v", sh)},
						"C18: ValidReplayer keeps %s (put at %d, ttl %d) reachable at %d after a collection (%s)", p.tok, p.putTime.Sub(c09Epoch), ttl, now.Sub(c09Epoch), why)
					bad = true
					return
				}
				if expired {
					r.Count("dead_confirmed", 1)
				} else if alive {
					r.Count("live_controls_ok", 1)
				} else {
					r.Count("live_controls_dead", 1)
				}
			}
			if sh := mon.ProbeShape(rp); sh.OK && sh.NonNilOutsideLiveRegion > 0 {
				r.Violation(key, []string{"slot_outside_live_range_populated", "valid"}, map[string]any{"ops": ops, "shape": fmt.Sprintf("%+v", sh)}, "C18: %d populated slots outside the live range of the ring after a collection", sh.NonNilOutsideLiveRegion)
				bad = true
			}
		}
		for k := 0; k < nops && !bad; k++ {
			x := rng.IntN(12)
			if burst > 0 {
				x = 0
				burst--
			}
			switch {
			case x < 6:
				tok := "m" + strconv.Itoa(len(probes))
				wp, err := c18Put(rp, tok, auto, []string{"a"})
				if err != nil {
					r.Violation(key, []string{"valid_put_rejected"}, nil, "C18: Put failed: %v", err)
					bad = true
					break
				}
				probes = append(probes, c18Probe{wp: wp, tok: tok, putTime: now})
				ops = append(ops, fmt.Sprintf("Put(%s)@%d", tok, now.Sub(c09Epoch)))
				// Documented rule ("removes any expired events when a new event is put and after at
				// least a GCInterval period passed"): the reference instant is the first Put, then
				// every Put-triggered collection. Histories in which GC() was called explicitly are
				// only judged at explicit collections from then on (an implementation may or may not
				// restart the interval there).
				if first {
					lastCollect, first = now, false
				} else if gcInt > 0 && now.Sub(lastCollect) >= gcInt {
					lastCollect = now
					if !explicitSeen && (nops < 500 || rng.IntN(20) == 0) {
						check("put_triggered_gc")
					}
				}
				if rng.IntN(10) == 0 {
					burst = 3 + rng.IntN(20)
					if nops > 500 {
						burst = 50 + rng.IntN(400)
					}
				}
			case x < 8 && noExplicit:
				now = now.Add(ttl / 3)
				ops = append(ops, fmt.Sprintf("Advance(%d)", ttl/3))
			case x < 8:
				rp.GC()
				ops = append(ops, fmt.Sprintf("GC@%d", now.Sub(c09Epoch)))
				explicitSeen = true
				check("explicit_gc")
			case x < 11:
				d := []time.Duration{1, ttl / 4, ttl / 2, ttl - 1, ttl, ttl + 1, 3 * ttl}[rng.IntN(7)]
				now = now.Add(d)
				ops = append(ops, fmt.Sprintf("Advance(%d)", d))
			case x == 11 && rng.IntN(3) == 0:
				// the application retunes the public GCInterval field while the replayer is in use
				gcInt = []time.Duration{0, ttl / 4, ttl / 2, ttl, 3 * ttl, 1}[rng.IntN(6)]
				rp.GCInterval = gcInt
				ops = append(ops, fmt.Sprintf("GCInterval=%d", gcInt))
				r.Count("gc_interval_changes", 1)
			default:
				if len(probes) > 0 {
					id := "id-" + probes[rng.IntN(len(probes))].tok
					if auto {
						id = strconv.Itoa(rng.IntN(len(probes)))
					}
					r.Count("replay_calls", int64(c18Replay(rp, id, true)))
					ops = append(ops, "Replay("+id+")")
				}
			}
		}
		if !bad {
			now = now.Add(3 * ttl)
			rp.GC()
			ops = append(ops, "Advance(3ttl);GC")
			check("final_gc")
		}
		r.Eval(fw.Hash("B", fmt.Sprint(ttl, gcInt, auto), strings.Join(ops, ";")), len(probes) > 4)
		runtime.KeepAlive(rp)
		if i < 16 {
			r.Sample("valid_history", 1, map[string]any{"ttl": int64(ttl), "gc_interval": int64(gcInt), "auto": auto, "ops": ops[:min(len(ops), 30)]})
		}
	}
	// (R) ValidReplayer, Put-triggered collections only, with Puts that are rejected (no topics, a
	// preset ID in automatic mode, no ID in manual mode) between the valid ones. Whether a rejected
	// Put runs the collection that is due is left open; what is not open is that a collection is
	// owed by the first accepted Put at least GCInterval after the last collection that ran. The
	// model keeps the set of instants the implementation may count from: a rejected Put that was
	// due adds "now" to it only if every expired message was in fact unreachable afterwards (it
	// collected, or there was nothing to tell); a collection is demanded only when it is due from
	// every instant of the set.
	nR := r.N(800, 6000)
	for i := 0; i < nR; i++ {
		if !r.Mine("R", i) {
			continue
		}
		key := fw.Key("R", i)
		rng := r.Rand("R", i)
		ttl := []time.Duration{12, 100, 1000}[rng.IntN(3)]
		auto := rng.IntN(2) == 0
		rp, _ := sse.NewValidReplayer(ttl, auto)
		now := c09Epoch
		rp.Now = func() time.Time { return now }
		gcInt := []time.Duration{ttl / 4, ttl / 2, ttl, 2 * ttl, 1}[rng.IntN(5)]
		rp.GCInterval = gcInt
		nops := 8 + rng.IntN(50)
		r.Begin(key, fmt.Sprintf("valid+rejected ttl=%d gc=%d auto=%v ops=%d", ttl, gcInt, auto, nops))
		var probes []c18Probe
		var ops []string
		var from []time.Time // instants the implementation may be counting the interval from
		bad := false
		expiredAlive := func() (string, bool) {
			c18GC()
			r.Count("gc_probes", 1)
			for _, p := range probes {
				if !p.putTime.Add(ttl).After(now) && c18Alive(p.wp) {
					return p.tok, true
				}
			}
			return "", false
		}
		dueFromAll := func() bool {
			for _, f := range from {
				if now.Sub(f) < gcInt {
					return false
				}
			}
			return len(from) > 0
		}
		advance := func(accepted bool, collected bool) {
			var next []time.Time
			add := func(t time.Time) {
				for _, x := range next {
					if x.Equal(t) {
						return
					}
				}
				next = append(next, t)
			}
			for _, f := range from {
				if now.Sub(f) >= gcInt {
					if accepted || collected {
						add(now)
					}
					if !accepted {
						add(f)
					}
				} else {
					add(f)
				}
			}
			from = next
		}
		for k := 0; k < nops && !bad; k++ {
			switch x := rng.IntN(10); {
			case x < 4 || len(from) == 0:
				tok := "m" + strconv.Itoa(len(probes))
				wp, err := c18Put(rp, tok, auto, []string{"a"})
				if err != nil {
					r.Violation(key, []string{"valid_put_rejected"}, nil, "C18: Put failed: %v", err)
					bad = true
					break
				}
				probes = append(probes, c18Probe{wp: wp, tok: tok, putTime: now})
				ops = append(ops, fmt.Sprintf("Put(%s)@%d", tok, now.Sub(c09Epoch)))
				if len(from) == 0 {
					from = []time.Time{now}
					break
				}
				if dueFromAll() {
					r.Count("put_triggered_after_rejected", 1)
					if tok, alive := expiredAlive(); alive {
						r.Violation(key, []string{"expired_message_reachable", "valid", "put_triggered_gc_after_rejected_put"}, map[string]any{"ttl": int64(ttl), "gc_interval": int64(gcInt), "auto": auto, "ops": ops, "message": tok, "now": int64(now.Sub(c09Epoch))},
							"C18: ValidReplayer keeps the expired %s reachable at %d although an accepted Put came at least GCInterval (%d) after the last collection that ran", tok, now.Sub(c09Epoch), gcInt)
						bad = true
						break
					}
				}
				advance(true, true)
			case x < 7:
				m := &sse.Message{}
				m.AppendData("rejected")
				topics := []string{"a"}
				kind := rng.IntN(3)
				switch {
				case kind == 0:
					topics = nil
					if !auto {
						m.ID = sse.ID("id-rejected")
					}
				case auto:
					m.ID = sse.ID("preset")
				}
				if got, err := rp.Put(m, topics); err == nil {
					r.Violation(key, []string{"invalid_put_accepted"}, map[string]any{"ops": ops}, "C18: a Put that must be rejected (kind %d, auto=%v) returned (%v, nil)", kind, auto, got != nil)
					bad = true
					break
				}
				ops = append(ops, fmt.Sprintf("RejectedPut(%d)@%d", kind, now.Sub(c09Epoch)))
				r.Count("rejected_puts", 1)
				_, alive := expiredAlive()
				advance(false, !alive)
			default:
				d := []time.Duration{1, ttl / 4, ttl / 2, ttl - 1, ttl, ttl + 1, 3 * ttl}[rng.IntN(7)]
				now = now.Add(d)
				ops = append(ops, fmt.Sprintf("Advance(%d)", d))
			}
		}
		r.Eval(fw.Hash("R", fmt.Sprint(ttl, gcInt, auto), strings.Join(ops, ";")), len(probes) > 2)
		runtime.KeepAlive(rp)
		if i < 8 {
			r.Sample("valid_history_with_rejected_puts", 1, map[string]any{"ttl": int64(ttl), "gc_interval": int64(gcInt), "auto": auto, "ops": ops[:min(len(ops), 30)]})
		}
	}
	// (C) thousands of unexpired messages at once (the ring passes 4096 and 8192 slots), then a
	// partial expiry: everything collected must be unreachable, everything else alive
	nC := r.N(3, 40)
	for i := 0; i < nC; i++ {
		if !r.Mine("C", i) {
			continue
		}
		key := fw.Key("C", i)
		rng := r.Rand("C", i)
		auto := rng.IntN(2) == 0
		ttl := time.Duration(1000)
		rp, _ := sse.NewValidReplayer(ttl, auto)
		now := c09Epoch
		rp.Now = func() time.Time { return now }
		rp.GCInterval = 0
		n1 := []int{4097, 4100, 5000, 8193, 9000}[rng.IntN(5)]
		n2 := 100 + rng.IntN(4000)
		r.Begin(key, fmt.Sprintf("valid large: %d puts, half a TTL later %d puts, first batch expires, GC (auto=%v)", n1, n2, auto))
		var first, second []weak.Pointer[sse.Message]
		okPut := true
		for k := 0; k < n1+n2 && okPut; k++ {
			if k == n1 {
				now = now.Add(ttl / 2)
			}
			wp, err := c18Put(rp, "m"+strconv.Itoa(k), auto, []string{"a"})
			if err != nil {
				r.Violation(key, []string{"valid_put_rejected"}, nil, "C18: Put #%d failed: %v", k+1, err)
				okPut = false
			}
			if k < n1 {
				first = append(first, wp)
			} else {
				second = append(second, wp)
			}
		}
		r.Count("large_histories", 1)
		r.Eval(fw.Hash("C", fmt.Sprint(n1, n2, auto)), true)
		if !okPut {
			continue
		}
		now = now.Add(ttl/2 + 1)
		rp.GC()
		c18GC()
		alive1, dead2 := 0, 0
		for _, wp := range first {
			if c18Alive(wp) {
				alive1++
			}
		}
		for _, wp := range second {
			if !c18Alive(wp) {
				dead2++
			}
		}
		r.Count("dead_confirmed", int64(len(first)-alive1))
		r.Count("live_controls_ok", int64(len(second)-dead2))
		if alive1 > 0 {
			sh := mon.ProbeShape(rp)
			r.Violation(key, []string{"expired_message_reachable", "valid", "large"}, map[string]any{"first_batch": n1, "second_batch": n2, "auto": auto, "still_reachable": alive1, "shape": fmt.Sprintf("%+v", sh)},
				"C18: after %d+%d Puts, expiry of the first batch and GC(), %d of the %d collected messages are still reachable", n1, n2, alive1, n1)
		}
		if dead2 > 0 {
			r.Count("live_controls_dead", int64(dead2))
		}
		// and once everything has expired
		now = now.Add(3 * ttl)
		rp.GC()
		c18GC()
		alive2 := 0
		for _, wp := range second {
			if c18Alive(wp) {
				alive2++
			}
		}
		if alive2 > 0 {
			r.Violation(key, []string{"expired_message_reachable", "valid", "large"}, map[string]any{"first_batch": n1, "second_batch": n2, "auto": auto, "still_reachable": alive2},
				"C18: after everything expired and GC(), %d messages of the second batch are still reachable", alive2)
		}
		runtime.KeepAlive(rp)
	}
}
