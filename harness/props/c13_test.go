package props

import (
	"context"
	"errors"
	"fmt"
	"io"
	"math/rand/v2"
	"net/http"
	"runtime"
	"sort"
	"strconv"
	"strings"
	"sync"
	"sync/atomic"
	"testing"
	"testing/synctest"
	"time"

	"github.com/anishathalye/porcupine"
	sse "github.com/tmaxmax/go-sse"

	"verifharness/fw"
	"verifharness/mon"
)

// ---- C13: each event reaches exactly the callbacks subscribed to its type --------------

// stepBody is a response body fed one chunk at a time; it stamps every Read.
type stepBody struct {
	ch    chan string
	clock *mon.Clock
	mu    sync.Mutex
	calls []int64 // stamp at entry of every Read
	rets  []int64 // stamp when a Read returns data (one per chunk)
	rest  string
}

func (b *stepBody) Read(p []byte) (int, error) {
	b.mu.Lock()
	b.calls = append(b.calls, b.clock.Tick())
	b.mu.Unlock()
	if b.rest == "" {
		s, ok := <-b.ch
		if !ok {
			return 0, io.EOF
		}
		b.rest = s
	}
	n := copy(p, b.rest)
	b.rest = b.rest[n:]
	if b.rest == "" {
		b.mu.Lock()
		b.rets = append(b.rets, b.clock.Tick())
		b.mu.Unlock()
	}
	return n, nil
}

type c13Inv struct {
	Cb    int
	Seq   int
	Type  string
	Stamp int64
}

type c13Op struct {
	Kind   string `json:"kind"` // "sub" | "unsub" | "emit"
	Cb     int    `json:"cb,omitempty"`
	Type   string `json:"type"`          // sub: type or c13All for all; emit: event type
	Via    string `json:"via,omitempty"` // sub: "event" | "messages" | "all"
	Worker int    `json:"worker,omitempty"`
}

type c13Script struct {
	Ops        []c13Op `json:"ops"`
	Concurrent bool    `json:"concurrent"`
	Workers    int     `json:"workers"`
	Procs      int     `json:"gomaxprocs,omitempty"`
}

// event types incl. look-alikes of anything an implementation might use as an internal marker
var c13Types = []string{"", "t1", "t2", "*", "message", "all"}

// c13All marks a subscribe-to-all registration in the model (an event type cannot contain a line break).
const c13All = "\nALL"

func c13EventBytes(seq int, typ string) string {
	s := ""
	if typ != "" {
		s = "event: " + typ + "\n"
	}
	return s + "data: " + strconv.Itoa(seq) + "\n\n"
}

type c13Reg struct {
	typ             string // "*" = all
	subCall, subRet int64
	unsubCalls      []int64
	unsubRets       []int64
}

type c13Obs struct {
	Invs      []c13Inv
	Regs      map[int]*c13Reg
	ReadCalls []int64
	ReadRets  []int64
	Emits     []string // type of the k-th emitted event
	Hist      []porcupine.Operation
	Panic     string
	AfterWait [][]c13Inv // sequential mode: invocations observed for each emit, at quiescence
}

func runC13(t *testing.T, sc *c13Script) (obs *c13Obs) {
	obs = &c13Obs{Regs: map[int]*c13Reg{}}
	defer func() {
		if r := recover(); r != nil {
			obs.Panic = fmt.Sprint(r)
		}
	}()
	synctest.Test(t, func(t *testing.T) {
		clock := &mon.Clock{}
		body := &stepBody{ch: make(chan string), clock: clock}
		rt := &scriptedRT{bodies: func(int, *http.Request) (io.Reader, error) { return body, nil }}
		cl := &sse.Client{HTTPClient: &http.Client{Transport: rt}, Backoff: sse.Backoff{MaxRetries: -1}}
		req, _ := http.NewRequestWithContext(context.Background(), http.MethodGet, "http://verif.invalid/", http.NoBody)
		conn := cl.NewConnection(req)
		var mu sync.Mutex
		removers := map[int]sse.EventCallbackRemover{}
		var hmu sync.Mutex
		addHist := func(op porcupine.Operation) {
			hmu.Lock()
			obs.Hist = append(obs.Hist, op)
			hmu.Unlock()
		}
		doSub := func(op c13Op, client int) {
			cbID := op.Cb
			cb := func(e sse.Event) {
				st := clock.Tick()
				seq, _ := strconv.Atoi(e.Data)
				mu.Lock()
				obs.Invs = append(obs.Invs, c13Inv{Cb: cbID, Seq: seq, Type: e.Type, Stamp: st})
				mu.Unlock()
			}
			reg := &c13Reg{typ: op.Type}
			reg.subCall = clock.Tick()
			var rm sse.EventCallbackRemover
			switch op.Via {
			case "all":
				rm = conn.SubscribeToAll(cb)
			case "messages":
				rm = conn.SubscribeMessages(cb)
			default:
				rm = conn.SubscribeEvent(op.Type, cb)
			}
			reg.subRet = clock.Tick()
			mu.Lock()
			removers[cbID] = rm
			obs.Regs[cbID] = reg
			mu.Unlock()
			addHist(porcupine.Operation{ClientId: client, Input: op, Call: reg.subCall, Output: nil, Return: reg.subRet})
		}
		doUnsub := func(op c13Op, client int) {
			mu.Lock()
			rm := removers[op.Cb]
			reg := obs.Regs[op.Cb]
			mu.Unlock()
			if rm == nil {
				return
			}
			c := clock.Tick()
			rm()
			r := clock.Tick()
			mu.Lock()
			reg.unsubCalls = append(reg.unsubCalls, c)
			reg.unsubRets = append(reg.unsubRets, r)
			mu.Unlock()
			addHist(porcupine.Operation{ClientId: client, Input: op, Call: c, Output: nil, Return: r})
		}
		done := make(chan error, 1)
		startConn := func() { go func() { done <- conn.Connect() }() }

		if !sc.Concurrent {
			// ops before Connect for the first third of the script, the rest while connected
			started := false
			third := len(sc.Ops) / 3
			for i, op := range sc.Ops {
				if !started && (i >= third || op.Kind == "emit") {
					startConn()
					started = true
					synctest.Wait()
				}
				switch op.Kind {
				case "sub":
					doSub(op, 1)
				case "unsub":
					doUnsub(op, 1)
				case "emit":
					k := len(obs.Emits)
					obs.Emits = append(obs.Emits, op.Type)
					mu.Lock()
					before := len(obs.Invs)
					mu.Unlock()
					body.ch <- c13EventBytes(k, op.Type)
					synctest.Wait() // Connect's goroutine is blocked in the next Read: dispatch is complete
					mu.Lock()
					obs.AfterWait = append(obs.AfterWait, append([]c13Inv(nil), obs.Invs[before:]...))
					mu.Unlock()
				}
			}
			if !started {
				startConn()
			}
			close(body.ch)
			<-done
		} else {
			// workers perform their sub/unsub ops while a feeder pushes the events
			startConn()
			var wg sync.WaitGroup
			perWorker := map[int][]c13Op{}
			var emits []c13Op
			for _, op := range sc.Ops {
				if op.Kind == "emit" {
					emits = append(emits, op)
				} else {
					perWorker[op.Worker] = append(perWorker[op.Worker], op)
				}
			}
			for w, ops := range perWorker {
				wg.Add(1)
				go func() {
					defer wg.Done()
					for i, op := range ops {
						if i%3 == 2 {
							time.Sleep(time.Duration(1 + (i*7+w)%5))
						}
						if op.Kind == "sub" {
							doSub(op, w)
						} else {
							doUnsub(op, w)
						}
					}
				}()
			}
			wg.Add(1)
			go func() {
				defer wg.Done()
				for k, op := range emits {
					obs.Emits = append(obs.Emits, op.Type)
					body.ch <- c13EventBytes(k, op.Type)
					if k%2 == 1 {
						time.Sleep(2)
					}
				}
			}()
			wg.Wait()
			synctest.Wait()
			close(body.ch)
			<-done
		}
		body.mu.Lock()
		obs.ReadCalls = append([]int64(nil), body.calls...)
		obs.ReadRets = append([]int64(nil), body.rets...)
		body.mu.Unlock()
	})
	return obs
}

func c13Match(regType, evType string) bool { return regType == c13All || regType == evType }

func judgeC13(sc *c13Script, obs *c13Obs) (out []jv) {
	if obs.Panic != "" {
		return []jv{jvf([]string{"panic_or_deadlock"}, "scenario panicked / deadlocked: %s", obs.Panic)}
	}
	// per-callback: stream order, no duplicates, only matching types
	byCb := map[int][]c13Inv{}
	for _, iv := range obs.Invs {
		byCb[iv.Cb] = append(byCb[iv.Cb], iv)
	}
	for cb, ivs := range byCb {
		reg := obs.Regs[cb]
		seen := map[int]bool{}
		last := -1
		for _, iv := range ivs {
			if seen[iv.Seq] {
				out = append(out, jvf([]string{"callback_twice_for_one_event"}, "callback %d was invoked twice for event #%d", cb, iv.Seq))
			}
			seen[iv.Seq] = true
			if iv.Seq < last {
				out = append(out, jvf([]string{"callback_order_wrong"}, "callback %d saw event #%d after #%d", cb, iv.Seq, last))
			}
			last = iv.Seq
			if iv.Seq < len(obs.Emits) && (iv.Type != obs.Emits[iv.Seq]) {
				out = append(out, jvf([]string{"event_altered"}, "event #%d has type %q at callback %d, emitted %q", iv.Seq, iv.Type, cb, obs.Emits[iv.Seq]))
			}
			if reg != nil && !c13Match(reg.typ, iv.Type) {
				out = append(out, jvf([]string{"callback_wrong_type"}, "callback %d subscribed to %q received event #%d of type %q", cb, reg.typ, iv.Seq, iv.Type))
			}
			if reg != nil {
				for _, r := range reg.unsubRets {
					if iv.Stamp > r {
						out = append(out, jvf([]string{"callback_after_unsubscribe_returned"}, "callback %d was invoked for event #%d after its unsubscribe function had returned", cb, iv.Seq))
						break
					}
				}
				if iv.Stamp < reg.subCall {
					out = append(out, jvf([]string{"callback_before_subscribe"}, "callback %d invoked before it was subscribed", cb))
				}
			}
		}
	}
	// must / must-not rules per emitted event, from the Read stamps that bracket its dispatch
	nEv := len(obs.Emits)
	for k := 0; k < nEv && k < len(obs.ReadRets); k++ {
		begin := obs.ReadRets[k]
		end := int64(1 << 62)
		// the dispatch of event k is over when Read is entered again after its bytes were returned
		for _, c := range obs.ReadCalls {
			if c > begin {
				end = c
				break
			}
		}
		for cb, reg := range obs.Regs {
			if !c13Match(reg.typ, obs.Emits[k]) {
				continue
			}
			got := 0
			for _, iv := range byCb[cb] {
				if iv.Seq == k {
					got++
				}
			}
			removedBefore := false
			removalStarted := false
			for i, c := range reg.unsubCalls {
				if c < end {
					removalStarted = true
				}
				if i < len(reg.unsubRets) && reg.unsubRets[i] < begin {
					removedBefore = true
				}
			}
			switch {
			case reg.subRet < begin && !removalStarted:
				if got != 1 {
					out = append(out, jvf([]string{"callback_missed_event"}, "callback %d (subscribed to %q before event #%d of type %q was read, not unsubscribed until after its dispatch) was invoked %d times", cb, reg.typ, k, obs.Emits[k], got))
				}
			case reg.subCall > end || removedBefore:
				if got != 0 {
					out = append(out, jvf([]string{"callback_unexpected_event"}, "callback %d received event #%d although it was not subscribed during its dispatch", cb, k))
				}
			}
		}
	}
	// sequential mode: exact multiset at every quiescent point
	if !sc.Concurrent {
		model := map[int]string{}
		k := 0
		for _, op := range sc.Ops {
			switch op.Kind {
			case "sub":
				model[op.Cb] = op.Type
			case "unsub":
				delete(model, op.Cb)
			case "emit":
				var want []int
				for cb, ty := range model {
					if c13Match(ty, op.Type) {
						want = append(want, cb)
					}
				}
				sort.Ints(want)
				var got []int
				if k < len(obs.AfterWait) {
					for _, iv := range obs.AfterWait[k] {
						got = append(got, iv.Cb)
						if iv.Seq != k {
							out = append(out, jvf([]string{"callback_wrong_event"}, "during event #%d callback %d received event #%d", k, iv.Cb, iv.Seq))
						}
					}
				}
				sort.Ints(got)
				if fmt.Sprint(got) != fmt.Sprint(want) {
					out = append(out, jvf([]string{"dispatch_set_wrong"}, "event #%d (type %q) was passed to callbacks %v, want %v", k, op.Type, got, want))
				}
				k++
			}
		}
	}
	return out
}

// porcupine model: the callback registry as a linearizable object.
// c13DeliverIn: "was event Seq passed to callback Cb?" (one operation per event and per callback whose
// subscription matches the event's type; its interval is the dispatch interval of the event)
type c13DeliverIn struct {
	Seq int
	Cb  int
}

// c13Model: linearizability per callback. The statement speaks about each callback ("passed exactly
// once to each callback currently subscribed", "after an unsubscribe function has returned its callback
// is never invoked again"); it does not make the dispatch of one event an atomic snapshot of the whole
// registry, and an implementation that dispatches from a copy-on-write table is not atomic in that
// sense. So every callback has its own history - subscribe, unsubscribe calls, and for every matching
// event whether it was delivered - which must have a sequential explanation against a one-bit model.
func c13Model() porcupine.Model {
	cbOf := func(in any) int {
		switch v := in.(type) {
		case c13Op:
			return v.Cb
		case c13DeliverIn:
			return v.Cb
		}
		return -1
	}
	return porcupine.Model{
		Partition: func(history []porcupine.Operation) [][]porcupine.Operation {
			by := map[int][]porcupine.Operation{}
			var keys []int
			for _, op := range history {
				k := cbOf(op.Input)
				if _, ok := by[k]; !ok {
					keys = append(keys, k)
				}
				by[k] = append(by[k], op)
			}
			sort.Ints(keys)
			out := make([][]porcupine.Operation, 0, len(keys))
			for _, k := range keys {
				out = append(out, by[k])
			}
			return out
		},
		Init: func() any { return false },
		Step: func(state, in, out any) (bool, any) {
			switch v := in.(type) {
			case c13Op:
				return true, v.Kind == "sub"
			case c13DeliverIn:
				return out.(bool) == state.(bool), state
			}
			return false, state
		},
		Equal:             func(a, b any) bool { return a.(bool) == b.(bool) },
		DescribeOperation: func(in, out any) string { return fmt.Sprintf("%+v -> %v", in, out) },
	}
}

func c13Encode(reg map[int]string) string {
	keys := make([]int, 0, len(reg))
	for k := range reg {
		keys = append(keys, k)
	}
	sort.Ints(keys)
	var b strings.Builder
	for _, k := range keys {
		b.WriteString(strconv.Itoa(k) + "=" + reg[k] + ";")
	}
	return b.String()
}

func c13Decode(s string) map[int]string {
	reg := map[int]string{}
	for _, kv := range strings.Split(s, ";") {
		if kv == "" {
			continue
		}
		i := strings.IndexByte(kv, '=')
		k, _ := strconv.Atoi(kv[:i])
		reg[k] = kv[i+1:]
	}
	return reg
}

func c13Linearizable(obs *c13Obs) (porcupine.CheckResult, int) {
	ops := append([]porcupine.Operation(nil), obs.Hist...)
	got := map[[2]int]int{}
	for _, iv := range obs.Invs {
		got[[2]int{iv.Seq, iv.Cb}]++
	}
	cbs := make([]int, 0, len(obs.Regs))
	for cb := range obs.Regs {
		cbs = append(cbs, cb)
	}
	sort.Ints(cbs)
	for k := 0; k < len(obs.Emits) && k < len(obs.ReadRets); k++ {
		begin := obs.ReadRets[k]
		end := int64(-1)
		for _, c := range obs.ReadCalls {
			if c > begin {
				end = c
				break
			}
		}
		if end < 0 {
			continue
		}
		for _, cb := range cbs {
			if reg := obs.Regs[cb]; reg != nil && c13Match(reg.typ, obs.Emits[k]) {
				ops = append(ops, porcupine.Operation{ClientId: 0, Input: c13DeliverIn{k, cb}, Call: begin, Output: got[[2]int{k, cb}] > 0, Return: end})
			}
		}
	}
	res := porcupine.CheckOperationsTimeout(c13Model(), ops, 20*time.Second)
	return res, len(ops)
}

func genC13(rng *rand.Rand, concurrent bool) *c13Script {
	sc := &c13Script{Concurrent: concurrent}
	n := 5 + rng.IntN(26)
	if !concurrent && rng.IntN(40) == 0 {
		n = 400 + rng.IntN(400) // hundreds of subscriptions and removals on one connection
	}
	if concurrent {
		sc.Workers = 1 + rng.IntN(4)
		n = 8 + rng.IntN(20)
	}
	nextCb := 1
	var live []int
	var all []int
	for i := 0; i < n; i++ {
		switch x := rng.IntN(10); {
		case x < 3:
			op := c13Op{Kind: "sub", Cb: nextCb}
			switch rng.IntN(4) {
			case 0:
				op.Via, op.Type = "all", c13All
			case 1:
				op.Via, op.Type = "messages", ""
			default:
				op.Via, op.Type = "event", c13Types[rng.IntN(len(c13Types))]
			}
			if concurrent {
				op.Worker = 1 + rng.IntN(sc.Workers)
			}
			live = append(live, nextCb)
			all = append(all, nextCb)
			nextCb++
			sc.Ops = append(sc.Ops, op)
		case x < 5 && len(all) > 0:
			// remover: mostly live ones, sometimes stale/repeated
			cb := all[rng.IntN(len(all))]
			if len(live) > 0 && rng.IntN(3) > 0 {
				j := rng.IntN(len(live))
				cb = live[j]
				live = append(live[:j], live[j+1:]...)
			}
			op := c13Op{Kind: "unsub", Cb: cb}
			if concurrent {
				// a remover is called by the worker that owns the subscription, so that it exists
				for _, o := range sc.Ops {
					if o.Kind == "sub" && o.Cb == cb {
						op.Worker = o.Worker
					}
				}
			}
			sc.Ops = append(sc.Ops, op)
			if rng.IntN(4) == 0 {
				sc.Ops = append(sc.Ops, op) // repeated
			}
		default:
			sc.Ops = append(sc.Ops, c13Op{Kind: "emit", Type: c13Types[rng.IntN(len(c13Types))]})
		}
	}
	return sc
}

// c13LongLife: one long-lived callback, then 70000 subscribe/unsubscribe cycles on the same
// connection, then events: the long-lived callback is still there, every removed one is gone.
func c13LongLife(t *testing.T, r *fw.Run, key string) {
	r.Begin(key, "70000 subscription cycles")
	var keep, gone, fresh int
	_ = rand.IntN
	body := "data: 1\n\nevent: t1\ndata: 2\n\n"
	rt := &scriptedRT{bodies: func(int, *http.Request) (io.Reader, error) { return strings.NewReader(body), nil }}
	cl := &sse.Client{HTTPClient: &http.Client{Transport: rt}, Backoff: sse.Backoff{MaxRetries: -1}}
	req, _ := http.NewRequestWithContext(context.Background(), http.MethodGet, "http://verif.invalid/", http.NoBody)
	conn := cl.NewConnection(req)
	// nine long-lived callbacks, three of each kind, so that whatever ID arithmetic an implementation
	// uses, a recycled ID meets a long-lived callback of the same kind
	subKind := func(k int, f sse.EventCallback) sse.EventCallbackRemover {
		switch k % 3 {
		case 0:
			return conn.SubscribeMessages(f)
		case 1:
			return conn.SubscribeEvent("t1", f)
		}
		return conn.SubscribeToAll(f)
	}
	for k := 0; k < 9; k++ {
		subKind(k, func(sse.Event) { keep++ })
	}
	var stale []sse.EventCallbackRemover
	for i := 0; i < 70000; i++ {
		// kinds rotate, with a phase shift every 1000 cycles
		rm := subKind(i+i/1000, func(sse.Event) { gone++ })
		rm()
		if i%5000 == 0 {
			stale = append(stale, rm)
		}
	}
	conn.SubscribeEvent("t1", func(sse.Event) { fresh++ })
	conn.SubscribeToAll(func(sse.Event) { fresh += 100 })
	for _, rm := range stale {
		rm() // stale removers of long ago must not hit anybody else
	}
	conn.Connect()
	r.Count("scripts", 1)
	r.Eval(fw.Hash("c13-longlife"), true)
	if keep != 12 || gone != 0 || fresh != 201 {
		r.Violation(key, []string{"callback_lost_after_many_subscriptions"}, map[string]any{"long_lived_calls": keep, "removed_calls": gone, "fresh_calls": fresh}, "C13: after 70000 subscribe/unsubscribe cycles: long-lived callbacks saw %d (want 12), removed ones %d (want 0), fresh ones %d (want 201)", keep, gone, fresh)
	}
}

func TestC13(t *testing.T) {
	r := fw.Start(t, "C13")
	defer r.Finish()
	if r.Mine("H", 0) {
		c13LongLife(t, r, fw.Key("H", 0))
	}
	run := func(phase string, i int, concurrent bool) {
		key := fw.Key(phase, i)
		rng := r.Rand(phase, i)
		sc := genC13(rng, concurrent)
		sc.Procs = jProcs[i%len(jProcs)]
		r.Begin(key, fmt.Sprintf("%+v", sc))
		obs := runC13(t, sc)
		r.Count("scripts", 1)
		r.Count("callback_invocations_observed", int64(len(obs.Invs)))
		r.Count("events_emitted", int64(len(obs.Emits)))
		fs := judgeC13(sc, obs)
		if obs.Panic == "" {
			res, nops := c13Linearizable(obs)
			r.Count("porcupine_histories", 1)
			r.Count("porcupine_operations", int64(nops))
			switch res {
			case porcupine.Illegal:
				fs = append(fs, jvf([]string{"not_linearizable"}, "the subscribe/unsubscribe/delivery history of some callback has no sequential explanation (%d operations in all)", nops))
			case porcupine.Unknown:
				r.Count("porcupine_timeouts", 1)
			}
		}
		if len(fs) > 0 {
			tags := map[string]bool{}
			var msgs []string
			for _, f := range fs {
				for _, tg := range f.Tags {
					tags[tg] = true
				}
				msgs = append(msgs, f.Msg)
			}
			var tl []string
			for tg := range tags {
				tl = append(tl, tg)
			}
			var invs []string
			for _, iv := range obs.Invs {
				invs = append(invs, fmt.Sprintf("@%d cb%d <- #%d(%q)", iv.Stamp, iv.Cb, iv.Seq, iv.Type))
			}
			r.Violation(key, tl, map[string]any{"script": sc, "findings": msgs, "invocations": invs, "read_calls": obs.ReadCalls, "read_returns": obs.ReadRets}, "C13: %s (+%d more)", fs[0].Msg, len(fs)-1)
		}
		r.Eval(fw.Hash(fmt.Sprintf("%+v", sc)), len(obs.Emits) > 0 && len(obs.Regs) > 0)
		if i < 16 {
			r.Sample(phase, 1, sc)
		}
	}
	nt := r.N(400, 8000)
	for i := 0; i < nt; i++ {
		if r.Mine("T", i) {
			c13InDispatch(r, fw.Key("T", i), r.Rand("T", i))
		}
	}
	nc := r.N(48, 600)
	for i := 0; i < nc; i++ {
		if r.Mine("churn", i) {
			c13Churn(r, fw.Key("churn", i), r.Rand("churn", i))
		}
	}
	n := r.N(6000, 100000)
	for i := 0; i < n; i++ {
		if r.Mine("seq", i) {
			run("seq", i, false)
		}
	}
	m := r.N(6000, 100000)
	for i := 0; i < m; i++ {
		if r.Mine("conc", i) {
			run("conc", i, true)
		}
	}
}

// c13InDispatch: things done while a dispatch is in progress, from inside a callback (real
// goroutines; no virtual time: a goroutine waiting for the connection's lock is not "durably
// blocked" for synctest, so the bubble's clock could not advance).
//
//   - removers: while the trigger callback runs, nrm goroutines call the same remover of another
//     callback of the event. None of those calls may return before the callback's last invocation.
//   - panic: the trigger callback panics once; whether Connect lets the panic through or not, the
//     connection's registry stays usable afterwards: removers and Subscribe calls return, a later
//     Connect dispatches to exactly the callbacks subscribed then.
func c13InDispatch(r *fw.Run, key string, rng *rand.Rand) {
	mode := []string{"removers", "removers", "panic", "nilcb", "cancel"}[rng.IntN(5)]
	if mode == "nilcb" {
		c13NilCallback(r, key, rng)
		return
	}
	if mode == "cancel" {
		c13CancelInDispatch(r, key, rng)
		return
	}
	triggerTyped := rng.IntN(2) == 0 // trigger subscribed to the type and target to all, or the other way round
	nrm := 2 + rng.IntN(3)
	r.Begin(key, fmt.Sprintf("in-dispatch mode=%s trigger_typed=%v removers=%d", mode, triggerTyped, nrm))
	clock := &mon.Clock{}
	bodies := []string{"event: t1\ndata: 0\n\nevent: t1\ndata: 1\n\n", "event: t1\ndata: 2\n\n"}
	attempt := 0
	rt := &scriptedRT{bodies: func(int, *http.Request) (io.Reader, error) {
		b := bodies[min(attempt, len(bodies)-1)]
		attempt++
		return strings.NewReader(b), nil
	}}
	cl := &sse.Client{HTTPClient: &http.Client{Transport: rt}, Backoff: sse.Backoff{MaxRetries: -1}}
	req, _ := http.NewRequestWithContext(context.Background(), http.MethodGet, "http://verif.invalid/", http.NoBody)
	conn := cl.NewConnection(req)
	var mu sync.Mutex
	var targetInv, controlInv []int64 // stamps
	var rets []int64
	var wg sync.WaitGroup
	var rmTarget sse.EventCallbackRemover
	fired := false
	trigger := func(sse.Event) {
		if fired {
			return
		}
		fired = true
		if mode == "panic" {
			panic("callback panics (as a t.Fatal or a bug in application code would)")
		}
		for k := 0; k < nrm; k++ {
			wg.Add(1)
			go func() {
				defer wg.Done()
				rmTarget()
				st := clock.Tick()
				mu.Lock()
				rets = append(rets, st)
				mu.Unlock()
			}()
		}
		// give them every chance to run while this dispatch still holds whatever it holds
		for i := 0; i < 2000; i++ {
			runtime.Gosched()
		}
	}
	target := func(sse.Event) {
		st := clock.Tick()
		mu.Lock()
		targetInv = append(targetInv, st)
		mu.Unlock()
	}
	control := func(sse.Event) {
		st := clock.Tick()
		mu.Lock()
		controlInv = append(controlInv, st)
		mu.Unlock()
	}
	var rmTrigger sse.EventCallbackRemover
	if triggerTyped {
		rmTrigger = conn.SubscribeEvent("t1", trigger)
		rmTarget = conn.SubscribeToAll(target)
		conn.SubscribeToAll(control)
	} else {
		rmTrigger = conn.SubscribeToAll(trigger)
		rmTarget = conn.SubscribeEvent("t1", target)
		conn.SubscribeEvent("t1", control)
	}
	panicked := false
	connDone := make(chan struct{})
	go func() {
		defer close(connDone)
		defer func() {
			if recover() != nil {
				panicked = true
			}
		}()
		conn.Connect()
	}()
	// Connect must come back: a stall (nothing stamped for a million scheduler yields and 2 s) means
	// dispatch and the removers wait for each other
	{
		last, start, yields := int64(-1), time.Now(), 0
		for stalled := false; !stalled; {
			select {
			case <-connDone:
				stalled = true // done
				continue
			default:
			}
			runtime.Gosched()
			yields++
			if yields%4096 == 0 {
				if now := clock.Tick(); now != last+1 {
					last, start, yields = now, time.Now(), 0
				} else {
					last = now
					if yields > 1000000 && time.Since(start) > 2*time.Second {
						r.Count("in_dispatch_scenarios", 1)
						r.Eval(fw.Hash("T", mode, fmt.Sprint(triggerTyped, nrm)), true)
						r.Violation(key, []string{"dispatch_deadlock", "concurrent_calls_of_one_remover"}, map[string]any{"mode": mode, "trigger_typed": triggerTyped, "remover_goroutines": nrm},
							"C13: Connect does not return: dispatch and %d goroutines calling a remover wait for each other (nothing moved for a million scheduler yields and 2 s)", nrm)
						return
					}
				}
			}
		}
	}
	wg.Wait()
	r.Count("in_dispatch_scenarios", 1)
	r.Eval(fw.Hash("T", mode, fmt.Sprint(triggerTyped, nrm)), true)
	if mode == "removers" {
		mu.Lock()
		defer mu.Unlock()
		for _, iv := range targetInv {
			for _, rt := range rets {
				if iv > rt {
					r.Violation(key, []string{"callback_after_unsubscribe_returned", "concurrent_calls_of_one_remover"}, map[string]any{"trigger_typed": triggerTyped, "remover_goroutines": nrm, "target_invocations": targetInv, "remover_returns": rets},
						"C13: a callback was invoked (stamp %d) after a call of its unsubscribe function had returned (stamp %d): %d goroutines called the remover while a dispatch was in progress", iv, rt, nrm)
					return
				}
			}
		}
		if len(controlInv) != 2 {
			r.Violation(key, []string{"callback_missed_event"}, map[string]any{"control_invocations": len(controlInv)}, "C13: the callback that stays subscribed saw %d of 2 events", len(controlInv))
		}
		return
	}
	// panic mode: the registry must still work. Calls that need the connection's lock are made from
	// a goroutine and given a million scheduler yields and two seconds.
	returns := func(what string, f func()) bool {
		done := make(chan struct{})
		go func() { defer close(done); f() }()
		start := time.Now()
		for i := 0; ; i++ {
			select {
			case <-done:
				return true
			default:
			}
			if i > 1000000 && time.Since(start) > 2*time.Second {
				r.Violation(key, []string{"registry_unusable_after_callback_panic"}, map[string]any{"call": what, "connect_panicked": panicked, "trigger_typed": triggerTyped},
					"C13: after a callback panicked during dispatch, %s does not return (a million scheduler yields and 2 s later)", what)
				return false
			}
			runtime.Gosched()
		}
	}
	if !returns("the unsubscribe function of another callback", rmTarget) {
		return
	}
	if !returns("the unsubscribe function of the panicking callback", rmTrigger) {
		return
	}
	var late []int64
	if !returns("SubscribeToAll", func() {
		conn.SubscribeToAll(func(sse.Event) { mu.Lock(); late = append(late, clock.Tick()); mu.Unlock() })
	}) {
		return
	}
	before := len(controlInv)
	beforeTarget := len(targetInv)
	func() {
		defer func() { recover() }()
		conn.Connect()
	}()
	mu.Lock()
	defer mu.Unlock()
	if len(late) != 1 || len(controlInv) != before+1 || len(targetInv) != beforeTarget {
		r.Violation(key, []string{"registry_wrong_after_callback_panic"}, map[string]any{"connect_panicked": panicked, "late_subscriber_calls": len(late), "control_calls": len(controlInv) - before, "removed_callback_calls": len(targetInv) - beforeTarget},
			"C13: on the Connect after a callback panic, the new subscriber saw %d events (want 1), the one that stayed %d (want 1), the removed one %d (want 0)", len(late), len(controlInv)-before, len(targetInv)-beforeTarget)
	}
}

// c13NilCallback: a nil callback is registered for a type and removed again before any event of
// that type arrives (calling it would crash, so that is the only legal life it can have); the
// other subscriptions of that type are none of its remover's business.
func c13NilCallback(r *fw.Run, key string, rng *rand.Rand) {
	viaAll := rng.IntN(3) == 0
	nAfter := 1 + rng.IntN(3)
	r.Begin(key, fmt.Sprintf("nil callback, via_all=%v, %d real subscriptions after it", viaAll, nAfter))
	rt := &scriptedRT{bodies: func(int, *http.Request) (io.Reader, error) {
		return strings.NewReader("event: t1\ndata: 0\n\ndata: 1\n\n"), nil
	}}
	cl := &sse.Client{HTTPClient: &http.Client{Transport: rt}, Backoff: sse.Backoff{MaxRetries: -1}}
	req, _ := http.NewRequestWithContext(context.Background(), http.MethodGet, "http://verif.invalid/", http.NoBody)
	conn := cl.NewConnection(req)
	got := make([]int, nAfter)
	var before int
	conn.SubscribeEvent("t1", func(sse.Event) { before++ })
	var rmNil sse.EventCallbackRemover
	if viaAll {
		rmNil = conn.SubscribeToAll(nil)
	} else {
		rmNil = conn.SubscribeEvent("t1", nil)
	}
	for k := 0; k < nAfter; k++ {
		if viaAll {
			conn.SubscribeToAll(func(sse.Event) { got[k]++ })
		} else {
			conn.SubscribeEvent("t1", func(sse.Event) { got[k]++ })
		}
	}
	rmNil()
	rmNil()
	panicked := ""
	func() {
		defer func() {
			if p := recover(); p != nil {
				panicked = fmt.Sprint(p)
			}
		}()
		conn.Connect()
	}()
	r.Count("in_dispatch_scenarios", 1)
	r.Eval(fw.Hash("T-nil", fmt.Sprint(viaAll, nAfter)), true)
	want := 1
	if viaAll {
		want = 2
	}
	bad := panicked != "" || before != 1
	for _, g := range got {
		if g != want {
			bad = true
		}
	}
	if bad {
		r.Violation(key, []string{"remover_affects_other_subscription", "nil_callback"}, map[string]any{"via_all": viaAll, "calls_of_later_subscriptions": got, "want_each": want, "calls_of_earlier_subscription": before, "panic": panicked},
			"C13: a nil callback was subscribed and unsubscribed before any event: the subscriptions made after it saw %v events (want %d each), the one before it %d (want 1), panic=%q", got, want, before, panicked)
	}
}

// c13Churn: subscribe/unsubscribe from two goroutines as fast as they can while a connection
// dispatches tens of thousands of events (real goroutines): progress must never stop.
func c13Churn(r *fw.Run, key string, rng *rand.Rand) {
	const nEvents = 20000
	defer runtime.GOMAXPROCS(runtime.GOMAXPROCS(8)) // needs goroutines that really run at the same time
	r.Begin(key, "subscribe/unsubscribe churn during 20000 dispatches")
	var sb strings.Builder
	for i := 0; i < nEvents; i++ {
		if i%2 == 0 {
			sb.WriteString("event: t1\n")
		}
		sb.WriteString("data: x\n\n")
	}
	rt := &scriptedRT{bodies: func(int, *http.Request) (io.Reader, error) { return strings.NewReader(sb.String()), nil }}
	cl := &sse.Client{HTTPClient: &http.Client{Transport: rt}, Backoff: sse.Backoff{MaxRetries: -1}}
	req, _ := http.NewRequestWithContext(context.Background(), http.MethodGet, "http://verif.invalid/", http.NoBody)
	conn := cl.NewConnection(req)
	var seen atomic.Int64
	conn.SubscribeToAll(func(sse.Event) { seen.Add(1) })
	stop := make(chan struct{})
	var wg sync.WaitGroup
	var cycles atomic.Int64
	for w := 0; w < 4; w++ {
		wg.Add(1)
		go func() {
			defer wg.Done()
			for {
				select {
				case <-stop:
					return
				default:
				}
				var rm sse.EventCallbackRemover
				if w%2 == 0 {
					rm = conn.SubscribeEvent("t1", func(sse.Event) {})
				} else {
					rm = conn.SubscribeToAll(func(sse.Event) {})
				}
				rm()
				cycles.Add(1)
			}
		}()
	}
	done := make(chan struct{})
	go func() { defer close(done); conn.Connect() }()
	// progress watchdog in scheduler yields and real time: a stall is a violation only if nothing at
	// all moved for a million yields and two seconds
	last, lastCycles := int64(-1), int64(-1)
	start := time.Now()
	yields := 0
	stalled := false
loop:
	for {
		select {
		case <-done:
			break loop
		default:
		}
		runtime.Gosched()
		yields++
		if yields%4096 == 0 {
			s, c := seen.Load(), cycles.Load()
			if s != last || c != lastCycles {
				last, lastCycles, start, yields = s, c, time.Now(), 0
			} else if yields > 1000000 && time.Since(start) > 2*time.Second {
				stalled = true
				break loop
			}
		}
	}
	close(stop)
	r.Count("churn_rounds", 1)
	r.Count("churn_cycles", cycles.Load())
	r.Eval(fw.Hash("churn", key), true)
	if stalled {
		r.Violation(key, []string{"dispatch_deadlock_under_churn"}, map[string]any{"events_dispatched": seen.Load(), "subscribe_cycles": cycles.Load()},
			"C13: with two goroutines subscribing and unsubscribing, dispatch stopped after %d of %d events and the subscribing goroutines after %d cycles (nothing moved for a million scheduler yields and 2 s)", seen.Load(), nEvents, cycles.Load())
		return // the goroutines are stuck: they are left behind
	}
	wg.Wait()
	if seen.Load() != nEvents {
		r.Violation(key, []string{"callback_missed_event"}, map[string]any{"seen": seen.Load()}, "C13: the long-lived subscribe-to-all callback saw %d of %d events under churn", seen.Load(), nEvents)
	}
}

// c13CancelInDispatch: a callback cancels the request's context while its event is being
// dispatched: the event is still passed to every other callback subscribed to it.
func c13CancelInDispatch(r *fw.Run, key string, rng *rand.Rand) {
	triggerTyped := rng.IntN(2) == 0
	withCause := rng.IntN(2) == 0
	nOther := 1 + rng.IntN(3)
	r.Begin(key, fmt.Sprintf("a callback cancels the request context during dispatch (trigger_typed=%v, cause=%v, %d other callbacks)", triggerTyped, withCause, nOther))
	rt := &scriptedRT{bodies: func(int, *http.Request) (io.Reader, error) {
		return strings.NewReader("event: t1\ndata: 0\n\nevent: t1\ndata: 1\n\n"), nil
	}}
	cl := &sse.Client{HTTPClient: &http.Client{Transport: rt}, Backoff: sse.Backoff{MaxRetries: -1}}
	ctx, cancel := context.WithCancel(context.Background())
	if withCause {
		c2, cc := context.WithCancelCause(context.Background())
		ctx, cancel = c2, func() { cc(errors.New("done with this stream")) }
	}
	defer cancel()
	req, _ := http.NewRequestWithContext(ctx, http.MethodGet, "http://verif.invalid/", http.NoBody)
	conn := cl.NewConnection(req)
	sawFirst := make([]int, 2*nOther)
	trigger := func(e sse.Event) {
		if e.Data == "0" {
			cancel()
		}
	}
	other := func(k int) func(sse.Event) {
		return func(e sse.Event) {
			if e.Data == "0" {
				sawFirst[k]++
			}
		}
	}
	// other callbacks of both kinds are subscribed before and after the one that cancels
	for k := 0; k < nOther; k++ {
		if k%2 == 0 {
			conn.SubscribeEvent("t1", other(k))
		} else {
			conn.SubscribeToAll(other(k))
		}
	}
	if triggerTyped {
		conn.SubscribeEvent("t1", trigger)
	} else {
		conn.SubscribeToAll(trigger)
	}
	for k := nOther; k < 2*nOther; k++ {
		if k%2 == 0 {
			conn.SubscribeEvent("t1", other(k))
		} else {
			conn.SubscribeToAll(other(k))
		}
	}
	conn.Connect()
	r.Count("in_dispatch_scenarios", 1)
	r.Eval(fw.Hash("T-cancel", fmt.Sprint(triggerTyped, withCause, nOther)), true)
	for k, n := range sawFirst {
		if n != 1 {
			r.Violation(key, []string{"callback_missed_event", "cancel_inside_dispatch"}, map[string]any{"trigger_typed": triggerTyped, "calls_for_the_event_per_callback": sawFirst},
				"C13: a callback cancelled the request context while event #0 was being dispatched: callback %d of %d others was given that event %d times (want 1 each: %v)", k, len(sawFirst), n, sawFirst)
			break
		}
	}
}
