package props

import (
	"context"
	"errors"
	"fmt"
	"io"
	"log"
	"math/rand/v2"
	"net"
	"net/http"
	"net/http/httptest"
	"strconv"
	"strings"
	"sync"
	"sync/atomic"
	"testing"
	"time"

	sse "github.com/tmaxmax/go-sse"

	"verifharness/fw"
	"verifharness/mon"
	"verifharness/ref"
)

// ---- C05: end to end, nothing lost, duplicated or reordered across reconnects -----------

var errCut = errors.New("verif: connection cut")

// cutConn is the client side of a TCP connection that can be closed abruptly after a byte
// budget of response bytes, or at once.
type cutConn struct {
	net.Conn
	mu     sync.Mutex
	budget int64 // -1: unlimited
	fired  atomic.Bool
	read   atomic.Int64
}

func (c *cutConn) Read(p []byte) (int, error) {
	c.mu.Lock()
	b := c.budget
	c.mu.Unlock()
	if b == 0 {
		c.fired.Store(true)
		c.Conn.Close()
		return 0, errCut
	}
	if b > 0 && int64(len(p)) > b {
		p = p[:b]
	}
	n, err := c.Conn.Read(p)
	c.read.Add(int64(n))
	c.mu.Lock()
	if c.budget > 0 {
		c.budget -= int64(n)
	}
	c.mu.Unlock()
	return n, err
}

// arm sets the budget to n more bytes.
func (c *cutConn) arm(n int64) {
	c.mu.Lock()
	c.budget = n
	c.mu.Unlock()
}

func (c *cutConn) closeNow() {
	c.fired.Store(true)
	c.Conn.Close()
}

type countRW struct {
	http.ResponseWriter
	n *atomic.Int64
}

func (c countRW) Write(p []byte) (int, error) {
	n, err := c.ResponseWriter.Write(p)
	c.n.Add(int64(n))
	return n, err
}
func (c countRW) FlushError() error {
	return http.NewResponseController(c.ResponseWriter).Flush()
}

type e2eSession struct {
	cancel    context.CancelFunc
	written   atomic.Int64
	header    string
	hasHeader bool
	done      atomic.Bool
}

type c05Op struct {
	Kind string `json:"kind"` // "pub" | "caughtup" | "cut_idle" | "cut_bytes" | "cut_next" | "handler_return"
	N    int    `json:"n,omitempty"`
	Pace int    `json:"pace_us,omitempty"`
}

type c05Script struct {
	Replayer  string  `json:"replayer"` // "finite:auto" ...
	Ops       []c05Op `json:"ops"`
	HookUS    int     `json:"hook_us,omitempty"`
	FakeClock bool    `json:"fake_clock,omitempty"`
	// MaxRetries of the client: 0 (unbounded) or a bound that the scripted faults never reach
	// without an intervening successful connection (each fault costs at most 2 consecutive retries).
	MaxRetries int `json:"max_retries,omitempty"`
	// Pad: extra payload bytes per event (long-lived connections that move several KiB, so that
	// the client's scanner buffer is compacted and refilled many times between cuts).
	Pad int `json:"pad,omitempty"`
	// SlowCallbackUS: the client callback takes up to this many microseconds for every third event.
	SlowCallbackUS int  `json:"slow_callback_us,omitempty"`
	Payloads       bool `json:"hostile_payloads,omitempty"`
}

type c05Published struct {
	Type string
	Data string // what a client must see (LF-joined lines)
	ID   string
}

type c05Result struct {
	Findings    []jv
	Connections int
	CutsFired   int
	Events      int
	HeadersSeen []string
	Watchdog    bool
	Published   int
	SubsSeen    int
}

func runC05(sc *c05Script, rng *rand.Rand) (res c05Result) {
	auto := strings.HasSuffix(sc.Replayer, ":auto")
	var fakeNow atomic.Int64
	var inner sse.Replayer
	if strings.HasPrefix(sc.Replayer, "finite") {
		inner, _ = sse.NewFiniteReplayer(512, auto)
	} else if sc.FakeClock {
		// the replayer's clock is injected and only advanced while the client is caught up, so
		// nothing the client still needs ever expires ("large enough for what is published while
		// the client is away") while old events do expire and Put-triggered collections run
		vr, _ := sse.NewValidReplayer(10*time.Second, auto)
		fakeNow.Store(c09Epoch.UnixNano())
		vr.Now = func() time.Time { return time.Unix(0, fakeNow.Load()) }
		inner = vr
	} else {
		inner, _ = sse.NewValidReplayer(time.Hour, auto)
	}
	rec := &mon.RecReplayer{Inner: inner}
	joe := &sse.Joe{Replayer: rec}
	sseSrv := &sse.Server{Provider: joe}

	var fmu sync.Mutex
	addFinding := func(tags []string, format string, a ...any) {
		fmu.Lock()
		if len(res.Findings) < 20 {
			res.Findings = append(res.Findings, jvf(tags, format, a...))
		}
		fmu.Unlock()
	}

	var clientLast atomic.Value // string: ID of the client's last dispatched event
	clientLast.Store("")
	var clientGot atomic.Int64 // number of events the client has received
	var smu sync.Mutex
	var sessions []*e2eSession
	handler := http.HandlerFunc(func(w http.ResponseWriter, r *http.Request) {
		ctx, cancel := context.WithCancel(r.Context())
		defer cancel()
		s := &e2eSession{cancel: cancel}
		if v, ok := r.Header["Last-Event-Id"]; ok && len(v) > 0 {
			s.header, s.hasHeader = v[0], true
		}
		smu.Lock()
		sessions = append(sessions, s)
		nth := len(sessions)
		smu.Unlock()
		_ = nth
		sseSrv.ServeHTTP(countRW{w, &s.written}, r.WithContext(ctx))
		s.done.Store(true)
	})
	srv := httptest.NewUnstartedServer(handler)
	srv.Config.ErrorLog = log.New(io.Discard, "", 0) // "superfluous WriteHeader" after a started stream is not judged
	srv.Start()
	defer srv.Close()

	var cmu sync.Mutex
	var conns []*cutConn
	var nextBudget int64 = -1
	dialer := &net.Dialer{}
	transport := &http.Transport{
		DisableKeepAlives: true,
		DialContext: func(ctx context.Context, network, addr string) (net.Conn, error) {
			c, err := dialer.DialContext(ctx, network, addr)
			if err != nil {
				return nil, err
			}
			cmu.Lock()
			cc := &cutConn{Conn: c, budget: nextBudget}
			nextBudget = -1
			conns = append(conns, cc)
			cmu.Unlock()
			return cc, nil
		},
	}
	defer transport.CloseIdleConnections()

	if sc.HookUS > 0 {
		var hc atomic.Uint64
		sse.SetVerifHook(func(string) {
			if n := hc.Add(1); n%3 == 0 {
				time.Sleep(time.Duration(1+n%uint64(sc.HookUS)) * time.Microsecond)
			}
		})
		defer sse.SetVerifHook(nil)
	}

	// what was published, in order
	var pmu sync.Mutex
	var published []c05Published

	ctx, cancel := context.WithCancel(context.Background())
	defer cancel()
	// The Last-Event-ID of every request is checked where the client hands it to the transport:
	// RoundTrip runs on Connect's goroutine, which is also the one that dispatches events, so
	// "the client's last dispatched event" is exact at that instant (a server-side check would
	// depend on the order in which handler goroutines get scheduled).
	var reqN atomic.Int64
	checkRT := roundTripFunc(func(r *http.Request) (*http.Response, error) {
		n := reqN.Add(1)
		want := clientLast.Load().(string)
		v, has := r.Header["Last-Event-Id"]
		got := ""
		if has && len(v) > 0 {
			got = v[0]
		}
		if n > 1 && (got != want || has != (want != "")) {
			addFinding([]string{"last_event_id_header_wrong"}, "request #%d carried Last-Event-Id %q (present=%v) but the client's last dispatched event has ID %q", n, got, has, want)
		}
		return transport.RoundTrip(r)
	})
	cl := &sse.Client{HTTPClient: &http.Client{Transport: checkRT}, Backoff: sse.Backoff{InitialInterval: time.Millisecond, Multiplier: 1, Jitter: -1, MaxRetries: sc.MaxRetries}}
	req, _ := http.NewRequestWithContext(ctx, http.MethodGet, srv.URL, http.NoBody)
	conn := cl.NewConnection(req)
	nextIdx := -1 // index of the last event received; the first one received defines the start
	conn.SubscribeToAll(func(e sse.Event) {
		pmu.Lock()
		defer pmu.Unlock()
		// find which published event this is supposed to be: the next one
		want := nextIdx + 1
		if nextIdx < 0 {
			// first event: identify it by its data token
			want = -1
			for i, p := range published {
				if p.Data == e.Data && p.Type == e.Type {
					want = i
					break
				}
			}
			if want < 0 {
				addFinding([]string{"unknown_event"}, "the first event received %v was never published", obsEvent{strings.Clone(e.LastEventID), strings.Clone(e.Type), strings.Clone(e.Data)})
				return
			}
		}
		if want >= len(published) {
			addFinding([]string{"unknown_event"}, "received event %v but only %d were published", obsEvent{strings.Clone(e.LastEventID), strings.Clone(e.Type), strings.Clone(e.Data)}, len(published))
			return
		}
		p := published[want]
		if e.Data != p.Data || e.Type != p.Type || e.LastEventID != p.ID {
			// classify: duplicate / gap / reorder
			tags := []string{"sequence_wrong"}
			pos := -1
			for i, q := range published {
				if q.Data == e.Data && q.Type == e.Type {
					pos = i
				}
			}
			switch {
			case pos >= 0 && pos <= nextIdx:
				tags = append(tags, "duplicate_or_replayed_again")
			case pos > want:
				tags = append(tags, "event_lost")
			case pos < 0:
				tags = append(tags, "event_altered")
			}
			addFinding(tags, "event #%d received by the client is %v, expected the next published event %v (published index %d, matched index %d)", clientGot.Load(), obsEvent{strings.Clone(e.LastEventID), strings.Clone(e.Type), strings.Clone(e.Data)}, obsEvent{p.ID, p.Type, p.Data}, want, pos)
			if pos > nextIdx {
				nextIdx = pos
			}
		} else {
			nextIdx = want
		}
		// copy: the monitor's notion of "the ID of the last dispatched event" must not share
		// memory with whatever the library handed to the callback
		clientLast.Store(strings.Clone(e.LastEventID))
		if n := clientGot.Add(1); sc.SlowCallbackUS > 0 && n%3 == 0 {
			pmu.Unlock()
			time.Sleep(time.Duration(1+int(n*7919)%sc.SlowCallbackUS) * time.Microsecond)
			pmu.Lock()
		}
	})
	connectDone := make(chan error, 1)
	go func() { connectDone <- conn.Connect() }()

	var subsSeenFn func() int
	deadline := time.Now().Add(40 * time.Second)
	waitFor := func(cond func() bool) bool {
		startSubs, startGot := -1, int64(-1)
		for !cond() {
			// bounded progress: many further subscriptions without a single new event reaching the
			// client is a livelock (for instance every reconnection failing in the same way), not
			// something more waiting can cure
			if sN := subsSeenFn(); startSubs < 0 {
				startSubs, startGot = sN, clientGot.Load()
			} else if clientGot.Load() != startGot {
				startSubs, startGot = sN, clientGot.Load()
			} else if sN >= startSubs+25 {
				addFinding([]string{"no_progress_livelock"}, "the server accepted %d further subscriptions from the client without a single new event reaching it (client has %d events)", sN-startSubs, startGot)
				return false
			}
			fmu.Lock()
			nf := len(res.Findings)
			fmu.Unlock()
			if nf > 0 {
				return false // a monitor already fired: no point in waiting for progress that cannot come
			}
			if time.Now().After(deadline) {
				res.Watchdog = true
				return false
			}
			select {
			case err := <-connectDone:
				connectDone <- err
				return false
			default:
			}
			time.Sleep(100 * time.Microsecond)
		}
		return true
	}
	subsSeen := func() int {
		n := 0
		for _, e := range rec.Log() {
			if e.Kind == "replay" {
				n++
			}
		}
		return n
	}
	subsSeenFn = subsSeen
	seq := 0
	var lastPutFake int64
	bigNext := false
	publish := func() {
		k := seq
		seq++
		m := &sse.Message{}
		model := &ref.Msg{}
		tok := "e" + strconv.Itoa(k)
		data := tok
		if sc.Payloads && rng.IntN(2) == 0 {
			extra := hostilePool[rng.IntN(60)]
			if len(extra) < 200 {
				data = tok + "\n" + extra
			}
		}
		if sc.Pad > 0 {
			data += "\n" + strings.Repeat(string(rune('a'+k%26)), sc.Pad)
		}
		if bigNext {
			bigNext = false
			data += "\n" + strings.Repeat("B", 9000)
		}
		m.AppendData(data)
		model.Append(false, data)
		ty := ""
		if rng.IntN(3) == 0 {
			ty = "type" + strconv.Itoa(rng.IntN(3))
			m.Type = sse.Type(ty)
		}
		id := ""
		if !auto {
			id = "id-" + strconv.Itoa(k)
			m.ID = sse.ID(id)
		} else {
			id = strconv.Itoa(k)
		}
		pmu.Lock()
		published = append(published, c05Published{Type: ty, Data: strings.Join(model.DataLines(), "\n"), ID: id})
		pmu.Unlock()
		lastPutFake = fakeNow.Load()
		if err := sseSrv.Publish(m); err != nil {
			addFinding([]string{"publish_failed"}, "Publish(%s) failed: %v", tok, err)
		}
	}
	caughtUp := func() bool { return int(clientGot.Load()) >= seq }
	curConn := func() *cutConn {
		cmu.Lock()
		defer cmu.Unlock()
		if len(conns) == 0 {
			return nil
		}
		return conns[len(conns)-1]
	}

	ok := waitFor(func() bool { return subsSeen() >= 1 })
	if ok {
		publish()
		ok = waitFor(caughtUp)
	}
	for _, op := range sc.Ops {
		if !ok {
			break
		}
		switch op.Kind {
		case "pub":
			for i := 0; i < op.N; i++ {
				publish()
				if op.Pace > 0 {
					time.Sleep(time.Duration(rng.IntN(op.Pace)+1) * time.Microsecond)
				}
			}
		case "caughtup":
			ok = waitFor(caughtUp)
		case "pub_big":
			bigNext = true
			publish()
		case "advance":
			// only meaningful right after "caughtup"
			// The client's resume anchor (its last received event = the last published one, since
			// it is caught up) must stay unexpired, otherwise the premise "the replayer holds what
			// is published while the client is away" is void: advance at most to one second before
			// the expiry of the last published event. Older events do expire.
			if sc.FakeClock && caughtUp() {
				d := int64(op.N) * int64(time.Millisecond)
				limit := lastPutFake + int64(9*time.Second) - fakeNow.Load()
				if d > limit {
					d = limit
				}
				if d > 0 {
					fakeNow.Add(d)
				}
			}
		case "cut_idle":
			before := subsSeen()
			if c := curConn(); c != nil {
				c.closeNow()
			}
			// steady state: publishing resumes only after the new subscription exists
			ok = waitFor(func() bool { return subsSeen() > before })
		case "cut_bytes":
			if c := curConn(); c != nil {
				c.arm(int64(op.N))
			}
		case "cut_next":
			cmu.Lock()
			nextBudget = int64(op.N)
			cmu.Unlock()
			if c := curConn(); c != nil {
				c.closeNow()
			}
		case "handler_return":
			smu.Lock()
			var s *e2eSession
			if len(sessions) > 0 {
				s = sessions[len(sessions)-1]
			}
			smu.Unlock()
			if s != nil && s.written.Load() > 0 && !s.done.Load() {
				s.cancel()
			}
		}
	}
	// faults stop here: disarm, publish the sentinel, bounded progress
	if ok {
		cmu.Lock()
		nextBudget = -1
		for _, c := range conns {
			c.arm(-1)
		}
		cmu.Unlock()
		s0 := subsSeen()
		publish()
		sentinel := seq
		ok = waitFor(func() bool {
			if int(clientGot.Load()) >= sentinel {
				return true
			}
			if subsSeen() >= s0+4 {
				addFinding([]string{"no_progress_after_faults_stopped"}, "after the faults stopped the server accepted %d further subscriptions from the client but it still has only %d of %d events", subsSeen()-s0, clientGot.Load(), sentinel)
				return true
			}
			return false
		})
	}
	// Connect must still be running
	select {
	case err := <-connectDone:
		addFinding([]string{"connect_returned_early"}, "Connect returned %v although its context was not cancelled", err)
		connectDone <- err
	default:
	}
	if int(clientGot.Load()) != seq && !res.Watchdog && len(res.Findings) == 0 {
		addFinding([]string{"event_lost"}, "the client received %d of %d published events", clientGot.Load(), seq)
	}
	cancel()
	select {
	case err := <-connectDone:
		if !errors.Is(err, context.Canceled) && len(res.Findings) == 0 {
			addFinding([]string{"connect_return_wrong"}, "after cancellation Connect returned %v", err)
		}
	case <-time.After(10 * time.Second):
		res.Watchdog = true
	}
	sctx, scancel := context.WithTimeout(context.Background(), 5*time.Second)
	sseSrv.Shutdown(sctx)
	scancel()
	cmu.Lock()
	res.Connections = len(conns)
	for _, c := range conns {
		if c.fired.Load() {
			res.CutsFired++
		}
	}
	cmu.Unlock()
	smu.Lock()
	for _, s := range sessions {
		res.HeadersSeen = append(res.HeadersSeen, s.header)
	}
	smu.Unlock()
	res.Events = int(clientGot.Load())
	res.Published = seq
	res.SubsSeen = subsSeen()
	return res
}

func genC05(rng *rand.Rand) *c05Script {
	sc := &c05Script{Replayer: []string{"finite:auto", "finite:manual", "valid:auto", "valid:manual"}[rng.IntN(4)], Payloads: rng.IntN(2) == 0}
	if rng.IntN(2) == 0 {
		sc.HookUS = 1 + rng.IntN(40)
	}
	if rng.IntN(2) == 0 {
		sc.MaxRetries = 4
	}
	if strings.HasPrefix(sc.Replayer, "valid") && rng.IntN(3) > 0 {
		sc.FakeClock = true
	}
	if rng.IntN(4) == 0 {
		sc.SlowCallbackUS = 50 + rng.IntN(1500)
	}
	if rng.IntN(60) == 0 {
		// a long life: hundreds of events through a dozen reconnections
		for k := 0; k < 10+rng.IntN(8); k++ {
			sc.Ops = append(sc.Ops, c05Op{Kind: "pub", N: 20 + rng.IntN(40), Pace: rng.IntN(30)})
			switch rng.IntN(3) {
			case 0:
				sc.Ops = append(sc.Ops, c05Op{Kind: "cut_bytes", N: rng.IntN(200)})
			case 1:
				sc.Ops = append(sc.Ops, c05Op{Kind: "cut_next", N: rng.IntN(400)})
			default:
				sc.Ops = append(sc.Ops, c05Op{Kind: "caughtup"}, c05Op{Kind: "cut_idle"})
			}
		}
		sc.Ops = append(sc.Ops, c05Op{Kind: "pub", N: 5}, c05Op{Kind: "caughtup"})
		sc.MaxRetries = 0
		return sc
	}
	if rng.IntN(4) == 0 {
		sc.Pad = 40 + rng.IntN(100)
		sc.Ops = append(sc.Ops, c05Op{Kind: "pub", N: 30 + rng.IntN(50)}, c05Op{Kind: "caughtup"}, c05Op{Kind: "cut_bytes", N: 5 + rng.IntN(sc.Pad)}, c05Op{Kind: "pub", N: 2 + rng.IntN(4)}, c05Op{Kind: "caughtup"})
		// a 9 KB event of which only a part arrives before the cut
		sc.Ops = append(sc.Ops, c05Op{Kind: "cut_bytes", N: 2200 + rng.IntN(6000)}, c05Op{Kind: "pub_big"}, c05Op{Kind: "pub", N: 1 + rng.IntN(3)}, c05Op{Kind: "caughtup"})
	}
	nf := 1 + rng.IntN(6)
	for i := 0; i < nf; i++ {
		if sc.FakeClock && rng.IntN(2) == 0 {
			sc.Ops = append(sc.Ops, c05Op{Kind: "pub", N: 1 + rng.IntN(6)}, c05Op{Kind: "caughtup"}, c05Op{Kind: "advance", N: []int{3000, 5000, 6000, 9999, 11000, 2500}[rng.IntN(6)]})
		}
		if rng.IntN(3) > 0 {
			sc.Ops = append(sc.Ops, c05Op{Kind: "pub", N: 1 + rng.IntN(6), Pace: rng.IntN(300)})
		}
		switch rng.IntN(6) {
		case 0:
			// steady state: caught up, cut while idle, publish only after re-subscription
			sc.Ops = append(sc.Ops, c05Op{Kind: "caughtup"}, c05Op{Kind: "cut_idle"}, c05Op{Kind: "pub", N: 1 + rng.IntN(3)})
		case 1:
			sc.Ops = append(sc.Ops, c05Op{Kind: "cut_bytes", N: rng.IntN(120)}, c05Op{Kind: "pub", N: 1 + rng.IntN(5), Pace: rng.IntN(200)})
		case 2:
			sc.Ops = append(sc.Ops, c05Op{Kind: "cut_next", N: rng.IntN(400)}, c05Op{Kind: "pub", N: 1 + rng.IntN(5), Pace: rng.IntN(200)})
		case 3:
			sc.Ops = append(sc.Ops, c05Op{Kind: "pub", N: 1}, c05Op{Kind: "caughtup"}, c05Op{Kind: "handler_return"}, c05Op{Kind: "pub", N: 1 + rng.IntN(4), Pace: rng.IntN(200)})
		case 4:
			sc.Ops = append(sc.Ops, c05Op{Kind: "pub", N: 2 + rng.IntN(4)}, c05Op{Kind: "cut_next", N: rng.IntN(300)}, c05Op{Kind: "pub", N: 1 + rng.IntN(3)})
		default:
			sc.Ops = append(sc.Ops, c05Op{Kind: "caughtup"}, c05Op{Kind: "cut_idle"})
		}
		if sc.MaxRetries > 0 {
			// with a finite retry budget every fault is followed by publishes and a wait until the
			// client has everything, i.e. has reconnected successfully: no script can then cause
			// more than 2 consecutive failed attempts, so giving up is never legitimate
			sc.Ops = append(sc.Ops, c05Op{Kind: "pub", N: 1 + rng.IntN(3)}, c05Op{Kind: "caughtup"})
		}
	}
	return sc
}

func TestC05(t *testing.T) {
	r := fw.Start(t, "C05")
	defer r.Finish()
	run := func(key string, sc *c05Script, rng *rand.Rand) {
		r.Begin(key, fmt.Sprintf("%+v", sc))
		res := runC05(sc, rng)
		r.Count("runs", 1)
		r.Count("connections_made", int64(res.Connections))
		r.Count("cuts_fired", int64(res.CutsFired))
		r.Count("events_checked_online", int64(res.Events))
		r.Count("subscriptions_seen_by_server", int64(res.SubsSeen))
		if res.Watchdog {
			r.Count("inconclusive_watchdog", 1)
		}
		nontrivial := res.Connections >= 2
		r.Eval(fw.Hash(fmt.Sprintf("%+v", sc)), nontrivial)
		if len(res.Findings) > 0 {
			tags := map[string]bool{}
			var msgs []string
			for _, f := range res.Findings {
				for _, tg := range f.Tags {
					tags[tg] = true
				}
				msgs = append(msgs, f.Msg)
			}
			var tl []string
			for tg := range tags {
				tl = append(tl, tg)
			}
			r.Violation(key, tl, map[string]any{"script": sc, "findings": msgs, "connections": res.Connections, "cuts_fired": res.CutsFired, "last_event_id_headers": res.HeadersSeen, "events_received": res.Events, "published": res.Published}, "C05: %s (+%d more)", res.Findings[0].Msg, len(res.Findings)-1)
		}
	}
	// (A) offset sweep: the client has e0, is cut while idle, three events are published while it
	// is away, and the reconnection's response is cut after X bytes, for every X.
	step := 3
	if r.Thorough() {
		step = 1
	}
	idx := 0
	for _, rp := range []string{"finite:auto", "valid:manual"} {
		for x := 0; x <= 420; x += step {
			i := idx
			idx++
			if !r.Mine("A", i) {
				continue
			}
			sc := &c05Script{Replayer: rp, Ops: []c05Op{{Kind: "caughtup"}, {Kind: "cut_next", N: x}, {Kind: "pub", N: 3}}}
			run(fw.Key("A", i), sc, r.Rand("A", i))
		}
	}
	if r.Thorough() {
		r.Exhaustive("cut of the reconnection response (headers + 3 replayed events) after every byte offset 0..420, for FiniteReplayer/auto IDs and ValidReplayer/manual IDs")
	}
	// (B) random fault sequences
	n := r.N(3000, 60000)
	for i := 0; i < n; i++ {
		if !r.Mine("B", i) {
			continue
		}
		rng := r.Rand("B", i)
		sc := genC05(rng)
		run(fw.Key("B", i), sc, rng)
		if i < 32 {
			r.Sample("fault_sequence", 2, sc)
		}
	}
}
