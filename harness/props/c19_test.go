package props

import (
	"context"
	"fmt"
	"io"
	"strconv"
	"strings"
	"sync"
	"testing"
	"testing/synctest"
	"time"

	sse "github.com/tmaxmax/go-sse"

	"verifharness/fw"
	"verifharness/mon"
	"verifharness/ref"
)

// ---- C19: publishing never mutates the caller's message; clones are independent --------

type c19Member struct {
	msg   *sse.Message
	model *ref.Msg
}

func c19CheckFamily(r *fw.Run, key string, fam []c19Member, ops []string) bool {
	for i, m := range fam {
		got := m.msg.String()
		want := m.model.Encode()
		dec, n, ok := ref.DecodeMsg(got)
		same := (m.model.Empty() && got == "") || (ok && n == len(got) && dec.Same(m.model))
		if !same {
			r.Violation(key, []string{"family_member_changed"}, map[string]any{"ops": ops, "member": i, "got": fw.Q(fw.Trunc(got, 500)), "want": fw.Q(fw.Trunc(want, 500))},
				"C19: after %q member %d of the clone family encodes to something else than its own history of mutations", ops[len(ops)-1], i)
			return false
		}
	}
	return true
}

// msgState is everything a caller can see of a message: its encoding and its fields (a Retry of
// -1 and of 0 encode alike but are different values of the caller's struct).
func msgState(m *sse.Message) string {
	return fmt.Sprintf("%q id=%v/%q type=%v/%q retry=%d", m.String(), m.ID.IsSet(), m.ID.String(), m.Type.IsSet(), m.Type.String(), int64(m.Retry))
}

func TestC19(t *testing.T) {
	r := fw.Start(t, "C19")
	defer r.Finish()

	// (A) clone families
	n := r.N(8000, 200000)
	for i := 0; i < n; i++ {
		if !r.Mine("A", i) {
			continue
		}
		key := fw.Key("A", i)
		rng := r.Rand("A", i)
		fam := []c19Member{{msg: &sse.Message{}, model: &ref.Msg{}}}
		var ops []string
		nops := 5 + rng.IntN(36)
		ok := true
		clones := 0
		var scratch []byte
		for k := 0; k < nops && ok; k++ {
			j := rng.IntN(len(fam))
			m := fam[j]
			switch x := rng.IntN(12); {
			case x < 5:
				s := "d" + strconv.Itoa(k)
				if rng.IntN(4) == 0 {
					s = hostilePool[rng.IntN(40)]
				}
				m.msg.AppendData(s)
				m.model.Append(false, s)
				ops = append(ops, fmt.Sprintf("m%d.AppendData(%s)", j, fw.Q(fw.Trunc(s, 30))))
			case x < 7:
				s := "c" + strconv.Itoa(k)
				m.msg.AppendComment(s)
				m.model.Append(true, s)
				ops = append(ops, fmt.Sprintf("m%d.AppendComment(%s)", j, s))
			case x == 7:
				id := "id" + strconv.Itoa(k)
				m.msg.ID = sse.ID(id)
				m.model.HasID, m.model.ID = true, id
				ops = append(ops, fmt.Sprintf("m%d.ID=%s", j, id))
			case x == 8:
				ty := "ty" + strconv.Itoa(k)
				m.msg.Type = sse.Type(ty)
				m.model.HasType, m.model.Type = true, ty
				ops = append(ops, fmt.Sprintf("m%d.Type=%s", j, ty))
			case x == 9 && rng.IntN(2) == 0:
				// UnmarshalText into a member replaces its content; nobody else may notice
				nm := &ref.Msg{}
				nl := rng.IntN(4)
				for q := 0; q < nl; q++ {
					nm.Append(rng.IntN(4) == 0, "u"+strconv.Itoa(k)+"-"+strconv.Itoa(q))
				}
				if nl == 0 || rng.IntN(3) == 0 {
					nm.HasID, nm.ID = true, "uid"+strconv.Itoa(k)
				}
				// the text comes in through one scratch buffer per family, reused for every such call
				// (encoding.TextUnmarshaler: the callee copies what it keeps)
				scratch = append(scratch[:0], nm.Encode()...)
				if err := m.msg.UnmarshalText(scratch); err != nil {
					r.Violation(key, []string{"unmarshal_failed"}, map[string]any{"ops": ops, "wire": nm.Encode()}, "C19: UnmarshalText of a valid encoding failed: %v", err)
					ok = false
					break
				}
				*m.model = *nm
				ops = append(ops, fmt.Sprintf("m%d.UnmarshalText(%s)", j, fw.Q(nm.Encode())))
			case x == 9 && rng.IntN(2) == 0:
				// a single field set through its TextUnmarshaler from the same scratch buffer
				v := "f" + strconv.Itoa(k)
				scratch = append(scratch[:0], v...)
				var err error
				if rng.IntN(2) == 0 {
					err = m.msg.ID.UnmarshalText(scratch)
					m.model.HasID, m.model.ID = true, v
					ops = append(ops, fmt.Sprintf("m%d.ID.UnmarshalText(%s)", j, v))
				} else {
					err = m.msg.Type.UnmarshalText(scratch)
					m.model.HasType, m.model.Type = true, v
					ops = append(ops, fmt.Sprintf("m%d.Type.UnmarshalText(%s)", j, v))
				}
				if err != nil {
					r.Violation(key, []string{"unmarshal_failed"}, map[string]any{"ops": ops}, "C19: field UnmarshalText(%q) failed: %v", v, err)
					ok = false
				}
			case x == 9:
				d := time.Duration(1+rng.IntN(5000)) * time.Millisecond
				m.msg.Retry = d
				m.model.RetryMs = d.Milliseconds()
				ops = append(ops, fmt.Sprintf("m%d.Retry=%v", j, d))
			default:
				if len(fam) < 6 {
					fam = append(fam, c19Member{msg: m.msg.Clone(), model: m.model.Clone()})
					clones++
					ops = append(ops, fmt.Sprintf("m%d=m%d.Clone()", len(fam)-1, j))
				} else {
					m.msg.AppendData("x")
					m.model.Append(false, "x")
					ops = append(ops, fmt.Sprintf("m%d.AppendData(x)", j))
				}
			}
			r.Count("family_checks", int64(len(fam)))
			ok = c19CheckFamily(r, key, fam, ops)
		}
		r.Eval(fw.Hash(strings.Join(ops, ";")), clones > 0)
		if i < 16 {
			r.Sample("clone_family", 2, ops)
		}
	}

	// (B) every clone point 0..12 appends, then append to original and to one or two clones in every order
	idx := 0
	for pre := 0; pre <= 12; pre++ {
		for order := 0; order < 6; order++ {
			i := idx
			idx++
			if !r.Mine("B", i) {
				continue
			}
			key := fw.Key("B", i)
			r.Begin(key, fmt.Sprintf("pre=%d order=%d", pre, order))
			orig := c19Member{msg: &sse.Message{}, model: &ref.Msg{}}
			ops := []string{}
			for k := 0; k < pre; k++ {
				orig.msg.AppendData("p" + strconv.Itoa(k))
				orig.model.Append(false, "p"+strconv.Itoa(k))
			}
			ops = append(ops, fmt.Sprintf("%d appends", pre))
			c1 := c19Member{msg: orig.msg.Clone(), model: orig.model.Clone()}
			c2 := c19Member{msg: orig.msg.Clone(), model: orig.model.Clone()}
			fam := []c19Member{orig, c1, c2}
			perms := [][]int{{0, 1, 2}, {0, 2, 1}, {1, 0, 2}, {1, 2, 0}, {2, 0, 1}, {2, 1, 0}}
			for _, who := range perms[order] {
				s := "after-" + strconv.Itoa(who)
				fam[who].msg.AppendData(s)
				fam[who].model.Append(false, s)
				ops = append(ops, fmt.Sprintf("m%d.AppendData(%s)", who, s))
				r.Count("family_checks", 3)
				if !c19CheckFamily(r, key, fam, ops) {
					break
				}
			}
			r.Eval(fw.Hash("B", fmt.Sprint(pre, order)), true)
		}
	}
	r.Exhaustive("clone taken after 0..12 appends x all 6 orders of appending to the original and two sibling clones")

	// (C) publishing a small pool of messages many times through Put directly: no Put may change
	// any message of the pool (the argument of this or of an earlier call) nor any copy returned by
	// an earlier Put; automatic IDs are consecutive over the whole history, also across expiry and
	// collection (ValidReplayer with an injected clock).
	kinds := []string{"finite:auto", "finite:manual", "valid:auto", "valid:manual"}
	m := r.N(2500, 50000)
	for i := 0; i < m; i++ {
		if !r.Mine("C", i) {
			continue
		}
		key := fw.Key("C", i)
		rng := r.Rand("C", i)
		kind := kinds[rng.IntN(len(kinds))]
		auto := strings.HasSuffix(kind, ":auto")
		var rp sse.Replayer
		now := c09Epoch
		ttl := time.Duration(100)
		capN := 2 + rng.IntN(4)
		if strings.HasPrefix(kind, "finite") {
			rp, _ = sse.NewFiniteReplayer(capN, auto)
		} else {
			vr, _ := sse.NewValidReplayer(ttl, auto)
			vr.Now = func() time.Time { return now }
			rp = vr
		}
		// a third of the automatic-ID histories start late in the replayer's life: the counter is
		// moved to where it stands after that many publications
		var idStart uint64
		if auto && rng.IntN(3) == 0 {
			if st := autoIDStarts[rng.IntN(len(autoIDStarts))]; mon.SetAutoIDCounter(rp, st) {
				idStart = st
				r.Count("histories_with_moved_id_counter", 1)
			}
		}
		npool := 1 + rng.IntN(4)
		pool := make([]*builtMsg, npool)
		enc := make([]string, npool)
		for q := range pool {
			b := genMessage(rng, true, false)
			for len(b.Model.Lines) > 12 {
				b = genMessage(rng, true, false)
			}
			if auto {
				b.Msg.ID = sse.EventID{}
				b.Model.HasID, b.Model.ID = false, ""
			} else if !b.Model.HasID {
				b.Msg.ID = sse.ID("manual" + strconv.Itoa(q))
				b.Model.HasID, b.Model.ID = true, "manual"+strconv.Itoa(q)
			}
			pool[q] = b
			enc[q] = msgState(b.Msg)
		}
		r.Begin(key, fmt.Sprintf("%s pool=%d cap=%d", kind, npool, capN))
		times := 2 + rng.IntN(3*capN+4)
		type ret struct {
			msg *sse.Message
			enc string
		}
		var rets []ret
		var ids []string
		var hist []string
		bad := false
		for k := 0; k < times && !bad; k++ {
			q := rng.IntN(npool)
			if strings.HasPrefix(kind, "valid") && rng.IntN(4) == 0 {
				d := []time.Duration{ttl / 2, ttl, 3 * ttl}[rng.IntN(3)]
				now = now.Add(d)
				hist = append(hist, fmt.Sprintf("advance(%d)", d))
				if rng.IntN(3) == 0 {
					rp.(*sse.ValidReplayer).GC()
					hist = append(hist, "GC")
				}
			}
			if len(ids) > 0 && rng.IntN(3) == 0 {
				// a subscriber resumes from an earlier publication: replaying is reading, too
				from := ids[rng.IntN(len(ids))]
				rp.Replay(sse.Subscription{Client: &mon.RecClient{}, LastEventID: sse.ID(from), Topics: []string{"t"}})
				hist = append(hist, fmt.Sprintf("Replay(from %q)", from))
				r.Count("replays_between_puts", 1)
			}
			got, err := rp.Put(pool[q].Msg, []string{"t"})
			hist = append(hist, fmt.Sprintf("Put(pool[%d])", q))
			r.Count("puts", 1)
			if err != nil || got == nil {
				r.Violation(key, []string{"republish_rejected"}, map[string]any{"kind": kind, "history": hist, "err": fmt.Sprint(err)}, "C19: Put #%d failed: %v", k+1, err)
				bad = true
				break
			}
			for x := range pool {
				if msgState(pool[x].Msg) != enc[x] || pool[x].Msg.ID.IsSet() != pool[x].Model.HasID {
					tags := []string{"put_mutates_argument"}
					if x != q {
						tags = []string{"put_mutates_earlier_message"}
					}
					r.Violation(key, tags, map[string]any{"kind": kind, "history": hist, "message": x, "before": fw.Q(fw.Trunc(enc[x], 300)), "after": fw.Q(fw.Trunc(msgState(pool[x].Msg), 300))}, "C19: after Put #%d (of pool[%d]) pool[%d] is not what it was (encoding or fields)", k+1, q, x)
					bad = true
					break
				}
			}
			if bad {
				break
			}
			for x, rt := range rets {
				if rt.msg.String() != rt.enc {
					r.Violation(key, []string{"put_mutates_earlier_returned_message"}, map[string]any{"kind": kind, "history": hist, "returned_by_put": x + 1, "before": fw.Q(fw.Trunc(rt.enc, 300)), "after": fw.Q(fw.Trunc(rt.msg.String(), 300))}, "C19: after Put #%d the message returned by Put #%d changed", k+1, x+1)
					bad = true
					break
				}
			}
			if bad {
				break
			}
			ids = append(ids, got.ID.String())
			rets = append(rets, ret{got, got.String()})
			if auto {
				// the stored copy is independent of the argument
				e := got.String()
				pool[q].Msg.AppendComment("touch" + strconv.Itoa(k))
				pool[q].Model.Append(true, "touch"+strconv.Itoa(k))
				enc[q] = msgState(pool[q].Msg)
				if got.String() != e {
					r.Violation(key, []string{"stored_copy_aliases_argument"}, map[string]any{"kind": kind, "history": hist}, "C19: appending to the caller's message changed the copy held by the replayer")
					bad = true
				}
				// and the other way round: appending to the copy Put returned leaves the caller's message alone
				got.AppendData("copy-side" + strconv.Itoa(k))
				rets[len(rets)-1].enc = got.String()
				if msgState(pool[q].Msg) != enc[q] {
					r.Violation(key, []string{"returned_copy_aliases_argument"}, map[string]any{"kind": kind, "history": hist, "before": fw.Q(fw.Trunc(enc[q], 300)), "after": fw.Q(fw.Trunc(pool[q].Msg.String(), 300))}, "C19: appending to the message returned by Put changed the caller's message")
					bad = true
				}
			}
		}
		if auto && !bad {
			for k := range ids {
				if ids[k] != strconv.FormatUint(idStart+uint64(k), 10) {
					r.Violation(key, []string{"auto_ids_not_consecutive"}, map[string]any{"kind": kind, "history": hist, "ids": ids, "publications_before": idStart}, "C19: publications number %d.. got IDs %v, want %d,%d,... (earlier publications already carry the smaller ones)", idStart+1, ids, idStart, idStart+1)
					break
				}
			}
		}
		r.Eval(fw.Hash("C", kind, strings.Join(hist, ";"), strings.Join(enc, "|")), true)
	}

	// (D) through Joe: the same *Message published several times, also concurrently
	d := r.N(1500, 30000)
	for i := 0; i < d; i++ {
		if !r.Mine("D", i) {
			continue
		}
		key := fw.Key("D", i)
		rng := r.Rand("D", i)
		kind := append([]string{"none"}, kinds...)[rng.IntN(len(kinds)+1)]
		auto := strings.HasSuffix(kind, ":auto")
		retry := []time.Duration{0, -1, -5 * time.Second, 1500 * time.Millisecond, 0}[rng.IntN(5)]
		withType := rng.IntN(3) == 0
		rejected := kind != "none" && rng.IntN(4) == 0
		workers := 1 + rng.IntN(4)
		per := 1 + rng.IntN(4)
		r.Begin(key, fmt.Sprintf("%s workers=%d per=%d retry=%d type=%v refused=%v", kind, workers, per, retry, withType, rejected))
		var findings []string
		func() {
			defer func() {
				if p := recover(); p != nil {
					findings = append(findings, fmt.Sprint("panic/deadlock: ", p))
				}
			}()
			synctest.Test(t, func(t *testing.T) {
				var inner sse.Replayer
				if strings.HasPrefix(kind, "finite") {
					inner, _ = sse.NewFiniteReplayer(3, auto)
				} else {
					inner, _ = sse.NewValidReplayer(time.Hour, auto)
				}
				joe := &sse.Joe{}
				if kind != "none" {
					joe.Replayer = &mon.RecReplayer{Inner: inner}
				}
				cl := &mon.RecClient{Name: "s"}
				ctx, cancel := context.WithCancel(context.Background())
				done := make(chan error, 1)
				go func() { done <- joe.Subscribe(ctx, sse.Subscription{Client: cl, Topics: []string{"t"}}) }()
				synctest.Wait()
				msg := &sse.Message{}
				msg.AppendData("shared")
				if !auto {
					msg.ID = sse.ID("manual")
				}
				if rejected {
					// a message the replayer refuses (an ID of its own with automatic IDs, none with
					// manual ones): Publish returns that error, the message is delivered all the same,
					// and it stays the caller's
					if auto {
						msg.ID = sse.ID("own-id")
					} else {
						msg.ID = sse.EventID{}
					}
				}
				msg.Retry = retry
				if withType {
					msg.Type = sse.Type("ty")
				}
				before := msgState(msg)
				var wg sync.WaitGroup
				for w := 0; w < workers; w++ {
					wg.Add(1)
					go func() {
						defer wg.Done()
						for k := 0; k < per; k++ {
							if err := joe.Publish(msg, []string{"t"}); (err != nil) != rejected {
								findings = append(findings, fmt.Sprintf("Publish returned %v (message the replayer refuses: %v)", err, rejected))
							}
						}
					}()
				}
				wg.Wait()
				synctest.Wait()
				if msgState(msg) != before || (msg.ID.IsSet() == auto) != rejected {
					findings = append(findings, fmt.Sprintf("the published message changed: %s -> %s", before, msgState(msg)))
				}
				var ids []string
				for _, c := range cl.Calls() {
					if c.Op == "send" {
						ids = append(ids, c.ID)
					}
				}
				if len(ids) != workers*per {
					findings = append(findings, fmt.Sprintf("%d deliveries for %d publications", len(ids), workers*per))
				}
				if auto && !rejected {
					for k, id := range ids {
						if id != strconv.Itoa(k) {
							findings = append(findings, fmt.Sprintf("delivered IDs %v are not 0,1,2,...", ids))
							break
						}
					}
				}
				cancel()
				<-done
				joe.Shutdown(context.Background())
			})
		}()
		r.Count("joe_republish_executions", 1)
		r.Eval(fw.Hash("D", kind, fmt.Sprint(workers, per)), true)
		if len(findings) > 0 {
			r.Violation(key, []string{"republish_through_joe"}, map[string]any{"kind": kind, "workers": workers, "per_worker": per, "findings": findings}, "C19: %s", findings[0])
		}
	}
	// (L) tens of thousands of publications through one automatic-ID replayer: the copies handed out
	// at the beginning are re-read at the end (IDs and content as they were)
	nl := r.N(4, 40)
	for i := 0; i < nl; i++ {
		if !r.Mine("L", i) {
			continue
		}
		key := fw.Key("L", i)
		rng := r.Rand("L", i)
		var rp sse.Replayer
		kind := "finite"
		if i%2 == 0 {
			rp, _ = sse.NewFiniteReplayer(2+rng.IntN(6), true)
		} else {
			kind = "valid"
			rp, _ = sse.NewValidReplayer(time.Hour, true)
		}
		start := uint64(0)
		if i%4 >= 2 {
			if st := []uint64{1<<63 - 40000, 1<<32 - 9000, 99990}[rng.IntN(3)]; mon.SetAutoIDCounter(rp, st) {
				start = st
			}
		}
		total := 18000 + rng.IntN(8000)
		r.Begin(key, fmt.Sprintf("%s replayer, %d publications of one message, counter starts at %d", kind, total, start))
		msg := &sse.Message{}
		msg.AppendData("tick")
		type kept struct {
			m     *sse.Message
			state string
			at    int
		}
		var keep []kept
		bad := false
		for k := 0; k < total && !bad; k++ {
			got, err := rp.Put(msg, []string{"t"})
			if err != nil || got == nil {
				r.Violation(key, []string{"republish_rejected"}, map[string]any{"publication": k + 1, "err": fmt.Sprint(err)}, "C19: Put #%d of the same message failed: %v", k+1, err)
				bad = true
				break
			}
			if want := strconv.FormatUint(start+uint64(k), 10); got.ID.String() != want {
				r.Violation(key, []string{"auto_ids_not_consecutive"}, map[string]any{"publication": k + 1, "got": got.ID.String(), "want": want}, "C19: publication #%d got ID %q, want %q", k+1, got.ID.String(), want)
				bad = true
			}
			if k < 40 || k%997 == 0 {
				keep = append(keep, kept{got, msgState(got), k})
			}
		}
		r.Count("puts", int64(total))
		r.Count("long_republish_histories", 1)
		r.Eval(fw.Hash("L", strconv.Itoa(i)), true)
		for _, kp := range keep {
			if bad {
				break
			}
			if st := msgState(kp.m); st != kp.state {
				r.Violation(key, []string{"put_mutates_earlier_returned_message"}, map[string]any{"kind": kind, "publications": total, "returned_by_put": kp.at + 1, "before": kp.state, "after": st},
					"C19: after %d publications the copy returned by Put #%d is no longer what it was (%s -> %s)", total, kp.at+1, kp.state, st)
				bad = true
			}
		}
		if msgState(msg) != "\"data: tick\\n\\n\" id=false/\"\" type=false/\"\" retry=0" {
			r.Violation(key, []string{"put_mutates_argument"}, map[string]any{"after": msgState(msg)}, "C19: the published message changed after %d publications", total)
		}
	}
	// (E) one message used by several goroutines at once, each publishing it to its own replayer,
	// cloning and encoding it: none of these may write to it (real goroutines, race detector)
	ne := r.N(600, 12000)
	for i := 0; i < ne; i++ {
		if !r.Mine("E", i) {
			continue
		}
		key := fw.Key("E", i)
		rng := r.Rand("E", i)
		msg := &sse.Message{}
		nl := 1 + rng.IntN(6)
		for k := 0; k < nl; k++ {
			if rng.IntN(4) == 0 {
				msg.AppendComment("c" + strconv.Itoa(k))
			} else {
				msg.AppendData("d" + strconv.Itoa(k))
			}
		}
		if rng.IntN(2) == 0 {
			msg.Type = sse.Type("ty")
		}
		before := msgState(msg)
		workers := 2 + rng.IntN(5)
		if i%64 == 0 {
			r.Begin(key, fmt.Sprintf("shared message, %d goroutines", workers))
		}
		var wg sync.WaitGroup
		errs := make([]string, workers)
		for w := 0; w < workers; w++ {
			wg.Add(1)
			go func() {
				defer wg.Done()
				var rp sse.Replayer
				if w%2 == 0 {
					rp, _ = sse.NewFiniteReplayer(2+w, true)
				} else {
					rp, _ = sse.NewValidReplayer(time.Hour, true)
				}
				for k := 0; k < 4; k++ {
					got, err := rp.Put(msg, []string{"t"})
					if err != nil || got == nil || got.ID.String() != strconv.Itoa(k) {
						errs[w] = fmt.Sprintf("Put #%d returned (%v, %v)", k+1, got, err)
						return
					}
					c := msg.Clone()
					c.AppendData("own")
					_ = msg.String()
					msg.WriteTo(io.Discard)
				}
			}()
		}
		wg.Wait()
		r.Count("shared_message_executions", 1)
		r.Eval(fw.Hash("E", strconv.Itoa(i)), true)
		for _, e := range errs {
			if e != "" {
				r.Violation(key, []string{"shared_message_put_wrong"}, map[string]any{"workers": workers}, "C19: %s", e)
				break
			}
		}
		if msgState(msg) != before {
			r.Violation(key, []string{"put_mutates_argument"}, map[string]any{"before": before, "after": msgState(msg)}, "C19: a message used concurrently by %d goroutines (Put, Clone, encode) changed", workers)
		}
	}
}
