package props

import (
	"bytes"
	"fmt"
	"math/rand/v2"
	"strings"
	"sync"
	"testing"

	sse "github.com/tmaxmax/go-sse"

	"verifharness/fw"
	"verifharness/ref"
)

// ---- C02: encoded messages decode to exactly what was appended ----------------------

type c02Witness struct {
	Messages [][]string `json:"messages_ops"`
	Wire     string     `json:"wire_quoted"`
	Decoder  string     `json:"decoder"`
	Got      []string   `json:"got_events"`
	Want     []string   `json:"want_events"`
	GotEnd   string     `json:"got_end,omitempty"`
}

// c02Expect computes the expected event lists from the models (API arguments only).
func c02Expect(models []*ref.Msg) (strict, adapted []obsEvent) {
	lastID := ""
	for _, m := range models {
		idOK := m.HasID && !strings.Contains(m.ID, "\x00")
		if idOK {
			lastID = m.ID
		}
		typ := ""
		if m.HasType {
			typ = m.Type
		}
		if m.HasData() {
			ev := obsEvent{ID: lastID, Type: typ, Data: strings.Join(m.DataLines(), "\n")}
			strict = append(strict, ev)
			adapted = append(adapted, ev)
		} else if m.HasType || idOK {
			adapted = append(adapted, obsEvent{ID: lastID, Type: typ, Data: ""})
		}
	}
	return
}

func c02Sequence(r *fw.Run, key string, msgs []*builtMsg) {
	var wire bytes.Buffer
	models := make([]*ref.Msg, len(msgs))
	ops := make([][]string, len(msgs))
	hostile := false
	for i, b := range msgs {
		models[i] = b.Model
		ops[i] = b.Ops
		hostile = hostile || modelHostile(b.Model)
		var one bytes.Buffer
		n, err := b.Msg.WriteTo(&one)
		mt, merr := b.Msg.MarshalText()
		st := b.Msg.String()
		if err != nil || merr != nil || int(n) != one.Len() || string(mt) != one.String() || st != one.String() {
			r.Violation(key, []string{"encoders_disagree"}, c02Witness{Messages: ops[i : i+1], Wire: fw.Q(fw.Trunc(one.String(), 400))},
				"C02: WriteTo/MarshalText/String disagree or report an error (n=%d len=%d err=%v merr=%v)", n, one.Len(), err, merr)
		}
		for _, rej := range b.Rejected {
			if !hasNewline(rej) {
				r.Violation(key, []string{"single_line_rejected"}, map[string]string{"value": fw.Q(rej)}, "C02: NewID/NewType rejected a single-line value")
			}
		}
		wire.Write(one.Bytes())
	}
	w := wire.String()
	wantStrict, wantAdapted := c02Expect(models)
	r.Eval(fw.Hash("c02", w), hostile && len(wantStrict) > 0)
	r.Count("messages", int64(len(msgs)))
	r.Count("wire_bytes", int64(len(w)))

	// (1) spec-conforming decoder: the strict browser algorithm.
	got := refEvents(ref.Interpret(w, ref.Opts{}))
	r.Count("events_decoded_strict", int64(len(got)))
	if !eqEvents(got, wantStrict) {
		r.Violation(key, []string{"decoder_strict"}, c02Witness{Messages: ops, Wire: fw.Q(fw.Trunc(w, 800)), Decoder: "whatwg-strict-reference", Got: fmtEvents(got), Want: fmtEvents(wantStrict)},
			"C02: the wire form decodes (spec-conforming parser) to %d events, expected %d from the API arguments", len(got), len(wantStrict))
	}
	// (2) go-sse's own parser.
	obs := runRead(strings.NewReader(w), &sse.ReadConfig{MaxEventSize: 4 << 20}, -1)
	r.Count("events_decoded_gosse", int64(len(obs.Events)))
	if !eqEvents(obs.Events, wantAdapted) || obs.End != "clean" || len(obs.Proto) > 0 {
		r.Violation(key, []string{"decoder_gosse"}, c02Witness{Messages: ops, Wire: fw.Q(fw.Trunc(w, 800)), Decoder: "sse.Read", Got: fmtEvents(obs.Events), Want: fmtEvents(wantAdapted), GotEnd: obs.End},
			"C02: the wire form decodes (sse.Read) to %d events end=%s, expected %d from the API arguments", len(obs.Events), obs.End, len(wantAdapted))
	}
	if hostile {
		r.Sample("sequence", 3, map[string]any{"ops": ops, "wire": fw.Q(fw.Trunc(w, 200)), "events": fmtEvents(wantStrict)})
	}
}

func TestC02(t *testing.T) {
	r := fw.Start(t, "C02")
	defer r.Finish()

	// (A) exhaustive small strings as the only data / only comment / data between two
	// plain messages, with and without id and type.
	maxLen := 5
	if r.Thorough() {
		maxLen = 6
	}
	na := smallCount(smallAlpha, maxLen)
	for i := 0; i < na; i++ {
		if !r.Mine("A", i) {
			continue
		}
		key := fw.Key("A", i)
		s := smallString(smallAlpha, i)
		r.Begin(key, s)
		mk := func(comment bool, withFields bool) *builtMsg {
			b := &builtMsg{Msg: &sse.Message{}, Model: &ref.Msg{}}
			if withFields {
				b.Msg.ID = sse.ID("i1")
				b.Msg.Type = sse.Type("t1")
				b.Model.HasID, b.Model.ID, b.Model.HasType, b.Model.Type = true, "i1", true, "t1"
				b.Ops = append(b.Ops, "ID=i1", "Type=t1")
			}
			if comment {
				b.Msg.AppendComment(s)
				b.Msg.AppendData("payload")
				b.Model.Append(true, s)
				b.Model.Append(false, "payload")
				b.Ops = append(b.Ops, "AppendComment("+fw.Q(s)+")", "AppendData(payload)")
			} else {
				b.Msg.AppendData(s)
				b.Model.Append(false, s)
				b.Ops = append(b.Ops, "AppendData("+fw.Q(s)+")")
			}
			return b
		}
		plain := func(d string) *builtMsg {
			b := &builtMsg{Msg: &sse.Message{}, Model: &ref.Msg{}}
			b.Msg.AppendData(d)
			b.Model.Append(false, d)
			b.Ops = []string{"AppendData(" + d + ")"}
			return b
		}
		c02Sequence(r, key, []*builtMsg{plain("before"), mk(false, false), plain("after")})
		c02Sequence(r, key, []*builtMsg{plain("before"), mk(true, true), plain("after")})
		// as ID / type candidates
		b := &builtMsg{Msg: &sse.Message{}, Model: &ref.Msg{}}
		if id, err := sse.NewID(s); err == nil {
			b.Msg.ID = id
			b.Model.HasID, b.Model.ID = true, s
			b.Ops = append(b.Ops, "ID="+fw.Q(s))
		} else {
			b.Rejected = append(b.Rejected, s)
		}
		if ty, err := sse.NewType(s); err == nil {
			b.Msg.Type = ty
			b.Model.HasType, b.Model.Type = true, s
			b.Ops = append(b.Ops, "Type="+fw.Q(s))
		} else {
			b.Rejected = append(b.Rejected, s)
		}
		b.Msg.AppendData("payload")
		b.Model.Append(false, "payload")
		b.Ops = append(b.Ops, "AppendData(payload)")
		c02Sequence(r, key, []*builtMsg{plain("before"), b, plain("after")})
	}
	r.Exhaustive("all strings up to length " + string(rune('0'+maxLen)) + " over {a,' ',':',CR,LF,NUL} as data, as comment, and as ID/type candidate, between two plain messages")

	// (B) hostile pool entries, each alone in every role.
	for i, s := range hostilePool {
		if !r.Mine("B", i) {
			continue
		}
		key := fw.Key("B", i)
		r.Begin(key, fw.Trunc(s, 100))
		for role := 0; role < 4; role++ {
			b := &builtMsg{Msg: &sse.Message{}, Model: &ref.Msg{}}
			switch role {
			case 0:
				b.Msg.AppendData(s)
				b.Model.Append(false, s)
			case 1:
				b.Msg.AppendComment(s)
				b.Model.Append(true, s)
				b.Msg.AppendData("p")
				b.Model.Append(false, "p")
			case 2:
				if len(s) > 1000 {
					continue
				}
				if id, err := sse.NewID(s); err == nil {
					b.Msg.ID = id
					b.Model.HasID, b.Model.ID = true, s
				} else {
					b.Rejected = append(b.Rejected, s)
				}
				b.Msg.AppendData("p")
				b.Model.Append(false, "p")
			case 3:
				if len(s) > 1000 {
					continue
				}
				if ty, err := sse.NewType(s); err == nil {
					b.Msg.Type = ty
					b.Model.HasType, b.Model.Type = true, s
				} else {
					b.Rejected = append(b.Rejected, s)
				}
			}
			b.Ops = []string{"role" + string(rune('0'+role)) + "(" + fw.Q(fw.Trunc(s, 80)) + ")"}
			pre := &builtMsg{Msg: &sse.Message{}, Model: &ref.Msg{}, Ops: []string{"AppendData(x)"}}
			pre.Msg.AppendData("x")
			pre.Model.Append(false, "x")
			c02Sequence(r, key, []*builtMsg{pre, b, pre})
		}
	}

	// (L) every line length 0..300 and the lengths around the usual buffer sizes, as a data line and
	// as a comment line, between two plain messages (an encoder that assembles lines in a fixed
	// buffer is wrong at exactly one length).
	lens := []int{}
	for l := 0; l <= 300; l++ {
		lens = append(lens, l)
	}
	for _, c := range []int{512, 1024, 2048, 4096, 8192, 16384, 32768, 65536} {
		for d := -8; d <= 2; d++ {
			lens = append(lens, c+d)
		}
	}
	for i, l := range lens {
		if !r.Mine("L", i) {
			continue
		}
		key := fw.Key("L", i)
		r.Begin(key, fmt.Sprintf("line length %d", l))
		payload := strings.Repeat("z", l)
		plain := func(d string) *builtMsg {
			b := &builtMsg{Msg: &sse.Message{}, Model: &ref.Msg{}, Ops: []string{"AppendData(" + d + ")"}}
			b.Msg.AppendData(d)
			b.Model.Append(false, d)
			return b
		}
		for _, comment := range []bool{false, true} {
			b := &builtMsg{Msg: &sse.Message{}, Model: &ref.Msg{}}
			if comment {
				b.Msg.AppendComment(payload)
				b.Model.Append(true, payload)
				b.Msg.AppendData("tail")
				b.Model.Append(false, "tail")
			} else {
				b.Msg.AppendData(payload, "tail")
				b.Model.Append(false, payload, "tail")
			}
			b.Ops = []string{fmt.Sprintf("line of %d bytes (comment=%v) then data tail", l, comment)}
			c02Sequence(r, key, []*builtMsg{plain("before"), b, plain("after")})
			// as the last line of the message
			b2 := &builtMsg{Msg: &sse.Message{}, Model: &ref.Msg{}, Ops: []string{fmt.Sprintf("last line of %d bytes (comment=%v)", l, comment)}}
			b2.Msg.AppendData("head")
			b2.Model.Append(false, "head")
			if comment {
				b2.Msg.AppendComment(payload)
				b2.Model.Append(true, payload)
			} else {
				b2.Msg.AppendData(payload)
				b2.Model.Append(false, payload)
			}
			c02Sequence(r, key, []*builtMsg{plain("before"), b2, plain("after")})
		}
	}
	r.Exhaustive("every data / comment line length 0..300 and -8..+2 around 512..65536, in the middle and at the end of a message")

	// (X) overlapping encodings: several goroutines encode their own messages at once, and a writer
	// that encodes another message in the middle of a Write: every encoding must be what the
	// message encodes to on its own
	nx := r.N(300, 6000)
	for i := 0; i < nx; i++ {
		if !r.Mine("X", i) {
			continue
		}
		key := fw.Key("X", i)
		rng := r.Rand("X", i)
		r.Begin(key, "overlapping encodings")
		msgs := make([]*builtMsg, 6)
		want := make([]string, len(msgs))
		for j := range msgs {
			msgs[j] = genMessage(rng, false, false)
			want[j] = msgs[j].Msg.String()
		}
		var wg sync.WaitGroup
		badAt := make([]int, len(msgs))
		for j := range msgs {
			wg.Add(1)
			go func() {
				defer wg.Done()
				for rep := 0; rep < 20; rep++ {
					var b bytes.Buffer
					msgs[j].Msg.WriteTo(&b)
					mt, _ := msgs[j].Msg.MarshalText()
					if b.String() != want[j] || string(mt) != want[j] || msgs[j].Msg.String() != want[j] {
						badAt[j]++
					}
				}
			}()
		}
		wg.Wait()
		for j := range badAt {
			if badAt[j] > 0 {
				r.Violation(key, []string{"concurrent_encoding_disturbed"}, map[string]any{"ops": msgs[j].Ops, "want": fw.Q(fw.Trunc(want[j], 300))}, "C02: encoding a message while other goroutines encode other messages gave different bytes (%d of 20 times)", badAt[j])
				break
			}
		}
		// re-entrant writer
		rw := &reentrantWriter{other: msgs[1].Msg}
		msgs[0].Msg.WriteTo(rw)
		if rw.buf.String() != want[0] {
			r.Violation(key, []string{"reentrant_encoding_disturbed"}, map[string]any{"ops": msgs[0].Ops, "got": fw.Q(fw.Trunc(rw.buf.String(), 300)), "want": fw.Q(fw.Trunc(want[0], 300))}, "C02: a writer that encodes another message during Write received other bytes than the message's own encoding")
		}
		r.Count("overlapping_encoding_cases", 1)
		r.Eval(fw.Hash("c02X", strings.Join(want, "|")), true)
	}

	// (C) seeded random sequences of 1-5 random messages.
	nc := r.N(30000, 600000)
	for i := 0; i < nc; i++ {
		if !r.Mine("C", i) {
			continue
		}
		key := fw.Key("C", i)
		rng := r.Rand("C", i)
		r.Begin(key, "")
		n := 1 + rng.IntN(5)
		msgs := make([]*builtMsg, n)
		for j := range msgs {
			msgs[j] = genMessage(rng, false, rng.IntN(20) == 0)
			if j > 0 && rng.IntN(4) == 0 {
				// built as a clone of an earlier message, then both are appended to: what one
				// message carries must not leak into its neighbour
				src := msgs[rng.IntN(j)]
				c := &builtMsg{Msg: src.Msg.Clone(), Model: src.Model.Clone(), Ops: append(append([]string(nil), src.Ops...), "Clone()")}
				for k, who := range []*builtMsg{c, src, c} {
					if rng.IntN(3) == 0 {
						continue
					}
					d := "after-clone-" + string(rune('a'+k))
					who.Msg.AppendData(d)
					who.Model.Append(false, d)
					who.Ops = append(who.Ops, "AppendData("+d+")")
				}
				msgs[j] = c
			}
		}
		c02Sequence(r, key, msgs)
	}
}

// reentrantWriter encodes another message every time it is written to, before it looks at p.
type reentrantWriter struct {
	other *sse.Message
	buf   bytes.Buffer
}

func (w *reentrantWriter) Write(p []byte) (int, error) {
	_ = w.other.String()
	w.other.MarshalText()
	return w.buf.Write(p)
}

var _ = rand.IntN
