package props

import (
	"fmt"
	"math/rand/v2"
	"strings"
	"testing"

	sse "github.com/tmaxmax/go-sse"

	"verifharness/fw"
	"verifharness/mon"
	"verifharness/ref"
)

// ---- C20: parser memory is bounded by the configured maximum event size ----------------

// tokenSpan is one unit the parser has to hold in memory at once: the blank lines in front
// of a block of non-blank lines, the block, and the blank line that ends it. Computed from
// the text alone.
type tokenSpan struct{ start, end int }

func tokenSpans(s string) []tokenSpan {
	var out []tokenSpan
	start := 0
	pos := 0
	inBlock := false
	for pos < len(s) {
		i := pos
		for i < len(s) && s[i] != '\n' && s[i] != '\r' {
			i++
		}
		if i == len(s) {
			break // unterminated rest: belongs to the final token
		}
		next := i + 1
		if s[i] == '\r' && next < len(s) && s[next] == '\n' {
			next++
		}
		blank := i == pos
		pos = next
		if blank {
			if inBlock {
				out = append(out, tokenSpan{start, pos})
				start = pos
				inBlock = false
			}
		} else {
			inBlock = true
		}
	}
	if start < len(s) {
		out = append(out, tokenSpan{start, len(s)})
	}
	return out
}

type c20Cfg struct {
	Entry  string `json:"entry"` // "read" | "conn"
	MaxEv  int    `json:"max_event_size,omitempty"`
	BufCap int    `json:"buf_cap,omitempty"`
	BufMax int    `json:"buf_max,omitempty"`
	NilBuf bool   `json:"nil_buf,omitempty"`
	// PreBuf: Connection.Buffer was called before with a buffer of this capacity; Warmup: an earlier Connect ran
	// with Buffer(nil, Warmup). In both cases the configuration under test is the one set last.
	PreBuf int `json:"buffer_called_before_with_cap,omitempty"`
	Warmup int `json:"earlier_connect_with_max,omitempty"`
	// ZeroCfg: a ReadConfig is passed whose MaxEventSize is 0 (the default)
	ZeroCfg bool `json:"zero_config,omitempty"`
	// RetryFirst: the stream is what the connection receives on its first reconnection (the first attempt gets one
	// comment and a clean end); the configuration was made once, before Connect
	RetryFirst bool `json:"stream_arrives_on_first_reconnection,omitempty"`
}

func (c c20Cfg) limit() int {
	if c.Entry == "read" {
		if c.MaxEv > 0 {
			return c.MaxEv
		}
		return 64 * 1024
	}
	if c.BufMax == 0 && c.BufCap == 0 {
		return 64 * 1024
	}
	return max(c.BufMax, c.BufCap)
}

var c20Cfgs = []c20Cfg{
	{Entry: "conn", NilBuf: true, BufMax: 100, PreBuf: 8192}, {Entry: "conn", NilBuf: true, BufMax: 4096, PreBuf: 70000}, {Entry: "conn", NilBuf: true, BufMax: 100, Warmup: 8192}, {Entry: "conn", NilBuf: true, BufMax: 5000, Warmup: 1 << 20},
	{Entry: "read"}, {Entry: "read", ZeroCfg: true}, {Entry: "conn", NilBuf: true, BufMax: 1}, {Entry: "read", MaxEv: -1}, {Entry: "read", MaxEv: -70000}, {Entry: "read", MaxEv: 1}, {Entry: "read", MaxEv: 3}, {Entry: "read", MaxEv: 16}, {Entry: "read", MaxEv: 100},
	{Entry: "read", MaxEv: 4096}, {Entry: "read", MaxEv: 65536}, {Entry: "read", MaxEv: 1 << 20}, {Entry: "read", MaxEv: 5000},
	{Entry: "conn"}, {Entry: "conn", NilBuf: true, BufMax: 16}, {Entry: "conn", BufCap: 8, BufMax: 16}, {Entry: "conn", BufCap: 64, BufMax: 16},
	{Entry: "conn", BufCap: 8192, BufMax: 100, RetryFirst: true}, {Entry: "conn", BufCap: 100000, RetryFirst: true}, {Entry: "conn", NilBuf: true, BufMax: 5000, RetryFirst: true}, {Entry: "conn", RetryFirst: true},
	{Entry: "conn", BufCap: 4096, BufMax: 65536}, {Entry: "conn", NilBuf: true, BufMax: 1 << 20}, {Entry: "conn", NilBuf: true, BufMax: 100}, {Entry: "conn", BufCap: 100, BufMax: 1},
}

func c20Run(cfg c20Cfg, rd *mon.ChunkReader) readObs {
	if cfg.Entry == "read" {
		var rc *sse.ReadConfig
		if cfg.MaxEv != 0 || cfg.ZeroCfg {
			rc = &sse.ReadConfig{MaxEventSize: cfg.MaxEv}
		}
		return runRead(rd, rc, -1)
	}
	var buf []byte
	if !cfg.NilBuf && cfg.BufCap > 0 {
		buf = make([]byte, 0, cfg.BufCap)
	}
	runConnPreBuf, runConnWarmupMax, runConnRetryFirst = cfg.PreBuf, cfg.Warmup, cfg.RetryFirst
	defer func() { runConnPreBuf, runConnWarmupMax, runConnRetryFirst = 0, 0, false }()
	return runConn(rd, buf, cfg.BufMax)
}

// c20Block builds a block whose token (leading blanks + block + terminating blank line) has
// exactly size bytes, if possible.
func c20Block(rng *rand.Rand, size int, idx int) string {
	blanks := 0
	if size > 12 && rng.IntN(3) == 0 {
		blanks = rng.IntN(min(size/2, 40))
	}
	body := size - blanks
	lead := strings.Repeat("\n", blanks)
	switch {
	case body >= 9:
		// "data: " + payload + "\n\n"
		if rng.IntN(5) == 0 && body >= 14 {
			// several data lines
			half := (body - 14) / 2
			return lead + "data: " + strings.Repeat("a", half) + "\ndata: " + strings.Repeat("b", body-14-half) + "\n\n"
		}
		if rng.IntN(6) == 0 {
			return lead + ": " + strings.Repeat("c", body-4) + "\n\n" // comment-only block
		}
		// line terminator and blank-line terminator vary (LF, CR, CRLF in every order that keeps
		// them two separate line ends)
		terms := [][2]string{{"\n", "\n"}, {"\n", "\n"}, {"\r", "\r"}, {"\r\n", "\r\n"}, {"\n", "\r"}, {"\n", "\r\n"}, {"\r\n", "\n"}, {"\r\n", "\r"}, {"\r", "\r\n"}}
		t := terms[rng.IntN(len(terms))]
		if pl := body - 6 - len(t[0]) - len(t[1]); pl >= 1 {
			return lead + "data: " + strings.Repeat(string(rune('a'+idx%26)), pl) + t[0] + t[1]
		}
		return lead + "data: " + strings.Repeat(string(rune('a'+idx%26)), body-8) + "\n\n"
	case body >= 4:
		return lead + "id" + strings.Repeat("\n", body-2)[:2] + strings.Repeat("\n", body-4)
	case body == 3:
		return lead + ":\n\n"
	case body == 2:
		return lead + "\n\n"
	default:
		return lead + strings.Repeat("\n", body)
	}
}

type c20Witness struct {
	Cfg     c20Cfg   `json:"config"`
	Limit   int      `json:"limit"`
	Stream  string   `json:"stream_shape"`
	Seg     string   `json:"chunking"`
	Tokens  []int    `json:"token_sizes"`
	Got     []string `json:"got_events"`
	GotEnd  string   `json:"got_end"`
	Want    []string `json:"want_events"`
	Pulled  int      `json:"bytes_pulled"`
	LastEnd int      `json:"end_of_last_completed_token"`
	Endless bool     `json:"endless,omitempty"`
}

func shapeOf(s string) string {
	// compact description: run-length of characters
	var b strings.Builder
	n := 0
	for i := 0; i < len(s) && n < 40; {
		j := i
		for j < len(s) && s[j] == s[i] {
			j++
		}
		if j-i > 3 {
			fmt.Fprintf(&b, "%q*%d ", s[i], j-i)
		} else {
			fmt.Fprintf(&b, "%q ", s[i:j])
		}
		i = j
		n++
	}
	return b.String()
}

func c20Case(r *fw.Run, key string, cfg c20Cfg, stream string, segKind string, cuts []int) {
	limit := cfg.limit()
	spans := tokenSpans(stream)
	sizes := make([]int, len(spans))
	maxTok := 0
	firstOver := -1
	for i, sp := range spans {
		sizes[i] = sp.end - sp.start
		maxTok = max(maxTok, sizes[i])
		if firstOver < 0 && sizes[i] >= limit+3 {
			firstOver = i
		}
	}
	rd := &mon.ChunkReader{Data: stream, Cuts: cuts}
	obs := c20Run(cfg, rd)
	r.Count("executions", 1)
	r.Count("bytes_pulled", int64(rd.Pulled()))
	r.Count("events_observed", int64(len(obs.Events)))
	w := c20Witness{Cfg: cfg, Limit: limit, Stream: shapeOf(stream), Seg: segKind, Tokens: sizes, Got: fmtEvents(obs.Events), GotEnd: obs.End, Pulled: rd.Pulled()}
	if len(w.Tokens) > 40 {
		w.Tokens = w.Tokens[:40]
	}
	if len(obs.Proto) > 0 {
		r.Violation(key, []string{"panic_or_protocol"}, w, "C20: %v", obs.Proto)
		return
	}
	switch {
	case maxTok <= limit-3:
		// everything fits: delivered completely and intact, end as the reference says
		conn := cfg.Entry == "conn"
		o := ref.Interpret(stream, ref.Opts{Adapt: true, Conn: conn})
		want := refEvents(o)
		w.Want = fmtEvents(want)
		if !eqEvents(obs.Events, want) || obs.End != refEnd(o) {
			tags := []string{"below_limit_not_intact"}
			if strings.HasPrefix(obs.End, "err:") {
				tags = append(tags, "error_below_limit")
			}
			r.Violation(key, tags, w, "C20: every event (with its preceding blank lines) is at most %d bytes, limit %d, but got %d events end=%s, want %d events end=%s", maxTok, limit, len(obs.Events), obs.End, len(want), refEnd(o))
		}
		r.Count("judged_below_limit", 1)
	case firstOver >= 0:
		// tokens before the first oversized one may themselves be in the unjudged zone
		for i := 0; i < firstOver; i++ {
			if sizes[i] > limit-3 {
				r.Count("unjudged_boundary", 1)
				return
			}
		}
		lastEnd := 0
		if firstOver > 0 {
			lastEnd = spans[firstOver-1].end
		}
		w.LastEnd = lastEnd
		conn := cfg.Entry == "conn"
		want := refEvents(ref.Interpret(stream[:lastEnd], ref.Opts{Adapt: true, Conn: conn}))
		w.Want = fmtEvents(want)
		if !strings.HasPrefix(obs.End, "err:") {
			r.Violation(key, []string{"oversized_no_error"}, w, "C20: token %d has %d bytes, limit %d, but the end condition is %q (no error)", firstOver, sizes[firstOver], limit, obs.End)
			return
		}
		if !eqEvents(obs.Events, want) {
			tags := []string{"oversized_events_wrong"}
			if len(obs.Events) > len(want) {
				tags = append(tags, "partial_or_oversized_event_delivered")
			}
			r.Violation(key, tags, w, "C20: oversized token %d (%d bytes, limit %d): got %d events, want exactly the %d that complete before it", firstOver, sizes[firstOver], limit, len(obs.Events), len(want))
			return
		}
		if rd.Pulled()-lastEnd > limit {
			r.Violation(key, []string{"read_beyond_limit"}, w, "C20: %d bytes were pulled past the end (%d) of the last completed event before the error, limit %d", rd.Pulled()-lastEnd, lastEnd, limit)
		}
		r.Count("judged_oversized", 1)
	default:
		r.Count("unjudged_boundary", 1)
	}
}

func c20Endless(r *fw.Run, key string, cfg c20Cfg, prefix string, unit string, cuts []int) {
	limit := cfg.limit()
	rd := &mon.ChunkReader{Data: unit, Endless: true, HardCap: 4*limit + 4096, Cuts: cuts}
	// the prefix is delivered through a separate reader in front
	full := &prefixReader{prefix: prefix, rest: rd}
	var obs readObs
	if cfg.Entry == "read" {
		var rc *sse.ReadConfig
		if cfg.MaxEv != 0 || cfg.ZeroCfg {
			rc = &sse.ReadConfig{MaxEventSize: cfg.MaxEv}
		}
		obs = runRead(full, rc, -1)
	} else {
		var buf []byte
		if !cfg.NilBuf && cfg.BufCap > 0 {
			buf = make([]byte, 0, cfg.BufCap)
		}
		runConnPreBuf, runConnWarmupMax, runConnRetryFirst = cfg.PreBuf, cfg.Warmup, cfg.RetryFirst
		obs = runConn(full, buf, cfg.BufMax)
		runConnPreBuf, runConnWarmupMax, runConnRetryFirst = 0, 0, false
	}
	r.Count("executions", 1)
	r.Count("endless_executions", 1)
	pulled := full.pulled + rd.Pulled()
	r.Count("bytes_pulled", int64(pulled))
	w := c20Witness{Cfg: cfg, Limit: limit, Stream: shapeOf(prefix) + " then endless " + shapeOf(unit), Got: fmtEvents(obs.Events), GotEnd: obs.End, Pulled: pulled, Endless: true}
	if len(obs.Proto) > 0 {
		r.Violation(key, []string{"panic_or_protocol"}, w, "C20: %v", obs.Proto)
		return
	}
	spans := tokenSpans(prefix)
	for _, sp := range spans {
		if sp.end-sp.start > limit-3 {
			r.Count("unjudged_boundary", 1)
			return
		}
	}
	conn := cfg.Entry == "conn"
	lastEnd := len(prefix)
	want := refEvents(ref.Interpret(prefix, ref.Opts{Adapt: true, Conn: conn}))
	w.Want, w.LastEnd = fmtEvents(want), lastEnd
	if rd.HitCap() || !strings.HasPrefix(obs.End, "err:") {
		r.Violation(key, []string{"endless_not_stopped"}, w, "C20: a stream that never completes an event was read for %d bytes (limit %d) without an error (end=%s)", pulled, limit, obs.End)
		return
	}
	if !eqEvents(obs.Events, want) {
		r.Violation(key, []string{"oversized_events_wrong", "partial_or_oversized_event_delivered"}, w, "C20: endless stream: got %d events, want the %d of the prefix", len(obs.Events), len(want))
		return
	}
	if pulled-lastEnd > limit {
		r.Violation(key, []string{"read_beyond_limit"}, w, "C20: %d bytes pulled past the last completed event (limit %d)", pulled-lastEnd, limit)
	}
	r.Count("judged_endless", 1)
}

type prefixReader struct {
	prefix string
	pos    int
	rest   *mon.ChunkReader
	pulled int
}

func (p *prefixReader) Read(b []byte) (int, error) {
	if p.pos < len(p.prefix) {
		n := copy(b, p.prefix[p.pos:])
		p.pos += n
		p.pulled += n
		return n, nil
	}
	return p.rest.Read(b)
}

func TestC20(t *testing.T) {
	r := fw.Start(t, "C20")
	defer r.Finish()
	runConnNoSniff = true
	n := r.N(12000, 200000)
	for i := 0; i < n; i++ {
		if !r.Mine("S", i) {
			continue
		}
		key := fw.Key("S", i)
		rng := r.Rand("S", i)
		cfg := c20Cfgs[rng.IntN(len(c20Cfgs))]
		limit := cfg.limit()
		// sizes around the limit and around the scanner's growth boundaries
		pick := func() int {
			cands := []int{1, 2, 3, 4, 9, 12, 30, limit / 2, limit - 5, limit - 4, limit - 3, limit - 2, limit - 1, limit, limit + 1, limit + 2, limit + 3, limit + 4, 2 * limit, 4095, 4096, 4097, 8191, 8193}
			if limit >= 65536 {
				cands = append(cands, 65535, 65536, 65537, 32767, 32769)
			}
			s := cands[rng.IntN(len(cands))]
			if s < 1 {
				s = 1
			}
			if s > 3<<20 {
				s = 3 << 20
			}
			return s
		}
		var b strings.Builder
		nblocks := 1 + rng.IntN(6)
		big := 0
		for k := 0; k < nblocks; k++ {
			sz := pick()
			if rng.IntN(3) > 0 {
				sz = 3 + rng.IntN(min(max(limit-6, 1), 60)) // mostly small blocks, one or two interesting ones
			}
			if sz > 200000 {
				big++
				if big > 1 {
					sz = 20
				}
			}
			b.WriteString(c20Block(rng, sz, k))
		}
		if limit <= 200 && rng.IntN(3) == 0 {
			// many tiny keep-alive blocks, more than the limit in total, then an event
			ka := []string{": k\n\n", ": k\n\n", ": k\r\r", ": k\n\r", ": k\n\r\n", ": k\r\n\r\n", "data: k\n\r", "data: k\n\r\n"}
			for k := 0; k < limit; k++ {
				b.WriteString(ka[rng.IntN(len(ka))])
			}
			b.WriteString("data: after keep-alives\n\n")
		}
		switch rng.IntN(6) {
		case 0:
			b.WriteString("data: tail-without-blank-line\n")
		case 1:
			b.WriteString("data: unterminated")
		}
		stream := b.String()
		segKind := "whole"
		var cuts []int
		switch rng.IntN(6) {
		case 0:
			if limit <= 4096 && len(stream) <= 20000 {
				segKind, cuts = "bytes", mon.EveryByte(len(stream))
			}
		case 1:
			segKind, cuts = "4096", mon.Every(len(stream), 4096)
		case 2:
			segKind, cuts = "4097", mon.Every(len(stream), 4097)
		case 3:
			segKind = "random"
			for j := 0; j < 1+rng.IntN(6) && len(stream) > 1; j++ {
				cuts = append(cuts, 1+rng.IntN(len(stream)-1))
			}
			cuts = mon.NormCuts(cuts, len(stream))
		}
		// the split function rescans a token from its start on every read: bound reads x token size
		if reads := len(cuts) + 1; reads > 1 {
			mt := 0
			for _, sp := range tokenSpans(stream) {
				mt = max(mt, sp.end-sp.start)
			}
			if float64(reads)*float64(min(mt, limit)) > 2e7 {
				segKind, cuts = "whole", nil
			}
		}
		r.Begin(key, fmt.Sprintf("%+v len=%d seg=%s", cfg, len(stream), segKind))
		c20Case(r, key, cfg, stream, segKind, cuts)
		r.Eval(fw.Hash(fmt.Sprintf("%+v", cfg), segKind, shapeOf(stream), fmt.Sprint(len(stream))), true)
		if i < 32 {
			r.Sample("stream", 2, map[string]any{"config": cfg, "limit": limit, "shape": fw.Trunc(shapeOf(stream), 300), "chunking": segKind})
		}
	}
	// endless streams
	units := []string{"x", "\n", "\r\n", ": c\n", "data: y\n", "data", "\r", "id: 1\n"}
	prefixes := []string{"", "data: a\n\n", "id: 1\ndata: a\n\ndata: b\n\n", "\n\n", ": c\n\n"}
	idx := 0
	for _, cfg := range c20Cfgs {
		for _, u := range units {
			for _, p := range prefixes {
				i := idx
				idx++
				if !r.Mine("E", i) {
					continue
				}
				if cfg.limit() > 70000 && !r.Thorough() && i%4 != 0 {
					continue
				}
				key := fw.Key("E", i)
				r.Begin(key, fmt.Sprintf("%+v endless unit=%q prefix=%q", cfg, u, p))
				var cuts []int
				if i%3 == 1 && cfg.limit() <= 4096 {
					cuts = []int{1 + i%7}
				} else if i%3 == 1 {
					cuts = []int{4096 + i%7}
				}
				c20Endless(r, key, cfg, p, u, cuts)
				r.Eval(fw.Hash("endless", fmt.Sprintf("%+v", cfg), u, p), true)
			}
		}
	}
}
