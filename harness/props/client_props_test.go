package props

import (
	"encoding/json"
	"errors"
	"fmt"
	"math/rand/v2"
	"strconv"
	"strings"
	"testing"
	"time"

	sse "github.com/tmaxmax/go-sse"

	"verifharness/fw"
	"verifharness/mon"
)

type cWitness struct {
	Script   *cScript `json:"script"`
	Findings []string `json:"findings"`
	Attempts []string `json:"attempts_observed"`
	Retries  []string `json:"onretry_observed"`
	Events   []string `json:"events_observed"`
	Result   string   `json:"connect_returned"`
}

func cMakeWitness(sc *cScript, obs *cObs, fs []jv) cWitness {
	w := cWitness{Script: sc, Result: fmt.Sprint(obs.Ret)}
	for _, f := range fs {
		w.Findings = append(w.Findings, f.Msg)
	}
	for i, a := range obs.Attempts {
		w.Attempts = append(w.Attempts, fmt.Sprintf("#%d @%v Last-Event-ID=%q present=%v body=%q", i, a.VTime, a.Header, a.HasHeader, a.Body))
	}
	for i, r := range obs.Retries {
		w.Retries = append(w.Retries, fmt.Sprintf("#%d @%v wait=%v err=%v", i, r.VTime, r.D, r.Err))
	}
	for _, e := range obs.Events {
		if len(w.Events) < 20 {
			w.Events = append(w.Events, fmt.Sprintf("attempt %d %v", e.Attempt, e.Ev))
		}
	}
	return w
}

// capScript truncates a script so that the virtual clock of the bubble cannot run away:
// synctest's fake clock starts in the year 2000 and an int64 of nanoseconds ends in 2262; a
// timer beyond that crashes the Go runtime ("bad g->status in ready"), which would be the
// harness's doing. The worst-case cumulative wait is bounded by 100 years.
func capScript(sc *cScript) {
	init, mult, jitter := effBackoff(sc.Backoff)
	if jitter == -1 {
		jitter = 0
	}
	const limit = float64(100 * 365 * 24 * time.Hour)
	b := init
	total := 0.0
	for i, a := range sc.Attempts {
		total += float64(a.Latency) + float64(a.StreamDelay)
		if a.Kind == "stream" {
			b = init
			for _, rv := range interpretAttempt(a, "").Retries {
				if rv.Ms > 0 {
					b = float64(rv.Ms) * 1e6
				} else {
					b = init
				}
			}
		}
		w := b * (1 + jitter)
		if total+w > limit {
			sc.Attempts = sc.Attempts[:i]
			return
		}
		total += w
		b *= mult
		if sc.Backoff.MaxInterval > 0 && b > float64(sc.Backoff.MaxInterval) {
			b = float64(sc.Backoff.MaxInterval)
		}
	}
}

func cRun(t *testing.T, r *fw.Run, key string, sc *cScript, prop string) {
	capScript(sc)
	if sc.Route == "" {
		// a quarter of the scripts reach the HTTP client through DefaultClient
		b := sc.Backoff
		switch h := fw.Hash("route", key); {
		case h%8 == 0 && b.InitialInterval > 0 && b.Multiplier >= 1 && (b.Jitter == -1 || b.Jitter > 0 && b.Jitter < 1):
			sc.Route = "pkg"
		case h%8 <= 1:
			sc.Route = "nilhttp"
		default:
			sc.Route = "own"
			sc.Poison = h%8 == 2 || h%8 == 3
		}
	}
	desc, _ := json.Marshal(sc)
	r.Begin(key, string(desc))
	obs := runClient(t, sc)
	r.Count("route_"+sc.Route, 1)
	r.Count("connect_executions", 1)
	r.Count("attempts_observed", int64(len(obs.Attempts)))
	r.Count("onretry_observed", int64(len(obs.Retries)))
	r.Count("events_observed", int64(len(obs.Events)))
	fs := judgeClient(sc, obs, prop)
	if len(fs) > 0 {
		tags := map[string]bool{}
		for _, f := range fs {
			for _, tg := range f.Tags {
				tags[tg] = true
			}
		}
		var tl []string
		for tg := range tags {
			tl = append(tl, tg)
		}
		r.Violation(key, tl, cMakeWitness(sc, obs, fs), "%s: %s (+%d more)", prop, fs[0].Msg, len(fs)-1)
	}
	r.Eval(fw.Hash(string(desc)), len(obs.Attempts) >= 2)
}

var cIDs = []string{"a", "b", "", "x\x00y", "evt-000000000000000000000000000000000000000000000001", "7", " spaced ", "é", "ctl\x01x", "\x7f", "u\x1fs", "tab\there", "\x1b[31m"}

// cGenStream builds a stream with k events and a chosen ending.
func cGenStream(rng *rand.Rand, withRetry bool) string {
	var b strings.Builder
	n := rng.IntN(4)
	if rng.IntN(15) == 0 {
		// one ID, then several KiB of events without one: the connection's idea of the last event
		// ID has to survive many refills of the read buffer
		b.WriteString("id: " + cIDs[rng.IntN(len(cIDs))] + "\ndata: first\n\n")
		for k := 0; k < 60+rng.IntN(200); k++ {
			b.WriteString("data: filler " + strconv.Itoa(k) + " " + strings.Repeat("f", rng.IntN(80)) + "\n\n")
		}
		n = rng.IntN(2)
	}
	for i := 0; i < n; i++ {
		switch rng.IntN(6) {
		case 0:
			b.WriteString(": keepalive\n\n")
			continue
		case 1:
			b.WriteString("id: " + cIDs[rng.IntN(len(cIDs))] + "\n\n")
			continue
		}
		if rng.IntN(2) == 0 {
			b.WriteString("id: " + cIDs[rng.IntN(len(cIDs))] + "\n")
		}
		if rng.IntN(4) == 0 {
			b.WriteString("event: t" + strconv.Itoa(rng.IntN(3)) + "\n")
		}
		if withRetry && rng.IntN(3) == 0 {
			b.WriteString("retry: " + cRetryVals[rng.IntN(len(cRetryVals))] + "\n")
		}
		b.WriteString("data: d" + strconv.Itoa(i) + "\n\n")
	}
	// ending
	switch rng.IntN(12) {
	case 0:
		b.WriteString("id: cutoff\ndata: partial\n") // terminated but not dispatched by a blank line
	case 1:
		b.WriteString("id: cutoff\ndata: parti") // mid-line
	case 2:
		b.WriteString("\n")
	case 3:
		b.WriteString(": c\n")
	case 4:
		b.WriteString("id: cutoff2")
	case 5:
		b.WriteString("foo: bar\n")
	case 6:
		if withRetry {
			b.WriteString("retry: 15\ndata: partial\n") // valid retry in an event that never gets its blank line
		}
	case 7:
		if withRetry {
			b.WriteString("data: partial\nretry: 1000\nid: cut")
		}
	}
	return b.String()
}

var cRetryVals = []string{"1", "15", "1000", "1000000000000", "0", "+5", "-1", "1.5", "", "abc", "007", "20 ", "000000000000000000000015", "00000000000000000000000000000000000000002000"}

func cGenAttempt(rng *rand.Rand, withRetry bool, allowReject bool, allowCancel bool) cAttempt {
	a := cAttempt{CancelAtOff: -1}
	switch x := rng.IntN(12); {
	case x < 3:
		a.Kind = "terr"
	case x == 3 && allowReject:
		a.Kind = "reject"
	default:
		a.Kind = "stream"
		a.Stream = cGenStream(rng, withRetry)
		a.End = "eof"
		if rng.IntN(3) == 0 {
			a.End = "rerr"
			if rng.IntN(3) == 0 {
				a.End = "rerr_eof"
			}
		}
		if len(a.Stream) > 1 {
			switch rng.IntN(3) {
			case 0:
				a.ByteReads = true
			case 1:
				a.Cuts = mon.NormCuts([]int{1 + rng.IntN(len(a.Stream)-1), 1 + rng.IntN(len(a.Stream)-1)}, len(a.Stream))
			}
		}
		if allowCancel && rng.IntN(12) == 0 {
			a.CancelAtOff = rng.IntN(len(a.Stream) + 1)
		}
	}
	if allowCancel && rng.IntN(40) == 0 {
		a.CancelInRT = true
		a.RTErrAfterCancel = rng.IntN(2) == 0
	}
	return a
}

// ---- C10 -------------------------------------------------------------------------------------

func TestC10(t *testing.T) {
	r := fw.Start(t, "C10")
	defer r.Finish()
	againPhase(t, r, "C10", r.N(1500, 30000), map[string]bool{"header": true, "body": true, "nogetbody": true, "events": true})
	bodies := []string{"nil", "nobody", "nobody_getbody", "bytes", "bytes", "closeonce", "noget", "noget_seek", "getfail:1", "getfail:2", "getfail:4"}
	n := r.N(6000, 120000)
	for i := 0; i < n; i++ {
		if !r.Mine("S", i) {
			continue
		}
		rng := r.Rand("S", i)
		sc := &cScript{Backoff: cBackoff{InitialInterval: int64(time.Millisecond), Multiplier: 1, Jitter: 0.5, MaxRetries: 0}, Body: bodies[rng.IntN(len(bodies))]}
		na := 1 + rng.IntN(12)
		if i%40 == 3 {
			na = 100 + rng.IntN(200)
		}
		for k := 0; k < na; k++ {
			a := cGenAttempt(rng, false, rng.IntN(30) == 0 && na < 50, rng.IntN(30) == 0 && na < 50)
			if a.Kind == "stream" && rng.IntN(6) == 0 {
				a.ViaRedirect = true
			}
			sc.Attempts = append(sc.Attempts, a)
		}
		cRun(t, r, fw.Key("S", i), sc, "C10")
		if i < 32 {
			r.Sample("script", 2, sc)
		}
	}
}

// ---- C11 -------------------------------------------------------------------------------------

var c11Bases = []string{
	"data: x\n\n", "data: x\n\n\n", "data: x\n\n: c\n", "data: x\n\nfoo: bar\n", "\n", "\r", "\r\n", ": c\n", ": c", "", "data: x", "data: x\n", "id: 1\ndata: x\n\nid: 2\ndata: y",
	"id: 1\ndata: x\n\ndata: y\n\n", "event: e\ndata: 1\n\nevent: f\n", "retry: 10\n\n", "retry: 10\n", "data: a\r\n\r\ndata: b\r\n\r\n", "data: a\r\rdata: b\r", "\xEF\xBB\xBFdata: x\n\n",
	"data: x\n\n\xEF\xBB\xBF", ":\n:\n:\n", "\n\n\n\n", "id\n\n", "data\n\n", "x\n", "x", "data: multi\ndata: line\n\n", "id: a\x00\n\n", "id: 9\n\n: trailing comment",
}

func TestC11(t *testing.T) {
	r := fw.Start(t, "C11")
	defer r.Finish()
	againPhase(t, r, "C11", r.N(1500, 30000), map[string]bool{"ret": true, "attempts": true, "nogetbody": true})
	retries := []int{-1, 1, 3}
	idx := 0
	// (A) every prefix of the base streams: clean EOF after every byte and a read error after every
	// byte, cancellation at every offset; whole and byte-at-a-time; all retry limits.
	for bi, base := range c11Bases {
		for cut := 0; cut <= len(base); cut++ {
			for mode := 0; mode < 4; mode++ { // 0 eof, 1 rerr, 2 cancel/deadline, 3 read error wrapping io.EOF
				i := idx
				idx++
				if !r.Mine("A", i) {
					continue
				}
				for _, mr := range retries {
					for _, bytewise := range []bool{false, true} {
						a := cAttempt{Kind: "stream", Stream: base[:cut], End: "eof", CancelAtOff: -1, ByteReads: bytewise}
						if mode == 1 {
							a.End = "rerr"
						}
						if mode == 3 {
							a.End = "rerr_eof"
						}
						sc := &cScript{Backoff: cBackoff{InitialInterval: int64(time.Millisecond), Multiplier: 1, Jitter: -1, MaxRetries: mr}, Body: "nil"}
						if mode == 2 {
							a = cAttempt{Kind: "stream", Stream: base, End: "eof", CancelAtOff: cut, ByteReads: bytewise}
							sc.Deadline = (cut+mr)%2 == 0
						}
						// the same ending is repeated so that, with retries, the last attempt decides
						sc.Attempts = []cAttempt{a}
						for k := 0; k < mr; k++ {
							sc.Attempts = append(sc.Attempts, a)
						}
						cRun(t, r, fw.Key("A", i), sc, "C11")
					}
				}
				_ = bi
			}
		}
	}
	r.Exhaustive(fmt.Sprintf("%d base streams x every prefix length x {clean EOF, read error, cancellation} x {whole, byte-at-a-time} x MaxRetries {-1,1,3}", len(c11Bases)))
	// (B) random scripts: mixed attempt outcomes, validator verdicts, cancellations in RoundTrip,
	// in the body, in the wait, before Connect.
	n := r.N(8000, 200000)
	for i := 0; i < n; i++ {
		if !r.Mine("B", i) {
			continue
		}
		rng := r.Rand("B", i)
		sc := &cScript{Backoff: cBackoff{InitialInterval: int64(time.Millisecond), Multiplier: 1.5, Jitter: []float64{-1, 0.5}[rng.IntN(2)], MaxRetries: []int{-1, 0, 1, 2, 3, 5}[rng.IntN(6)]}, Body: []string{"nil", "bytes", "noget", "getfail:2"}[rng.IntN(4)]}
		sc.CustomValidator = rng.IntN(2) == 0
		na := 1 + rng.IntN(8)
		for k := 0; k < na; k++ {
			var a cAttempt
			if rng.IntN(4) == 0 {
				// stream from the C01 generators
				a = cAttempt{Kind: "stream", Stream: c01GenC(rng), End: []string{"eof", "rerr"}[rng.IntN(2)], CancelAtOff: -1}
				if len(a.Stream) > 5000 {
					a.Stream = a.Stream[:5000]
				}
			} else {
				a = cGenAttempt(rng, true, true, true)
			}
			sc.Attempts = append(sc.Attempts, a)
		}
		if rng.IntN(5) == 0 {
			sc.BufMax = 256
			for k := range sc.Attempts {
				a := &sc.Attempts[k]
				if a.Kind == "stream" && len(a.Stream) < 200 && a.CancelAtOff < 0 && rng.IntN(2) == 0 {
					a.Oversized, a.End = true, "eof"
				} else if a.Kind == "stream" && len(a.Stream) >= 200 {
					sc.BufMax = 0
					break
				}
			}
			if sc.BufMax == 0 {
				for k := range sc.Attempts {
					sc.Attempts[k].Oversized = false
				}
			}
		}
		sc.TimeoutTErrs = rng.IntN(3) == 0
		if rng.IntN(25) == 0 {
			sc.CancelBefore = true
		}
		if rng.IntN(3) == 0 {
			sc.Deadline = true
		} else if rng.IntN(3) == 0 {
			sc.Cause = true
		} else if rng.IntN(8) == 0 {
			sc.CancelInWait = map[int]bool{rng.IntN(na): true}
		}
		cRun(t, r, fw.Key("B", i), sc, "C11")
		if i < 32 {
			r.Sample("script", 2, sc)
		}
	}
	// (D) the context ends inside an event callback (cancel() or a deadline that passes there), with every
	// retry limit incl. "no retries"; and read errors that wrap a context error (a client timeout, a
	// transport's own deadline) while the request's context is alive: lost connections like any other.
	nD := r.N(3000, 80000)
	for i := 0; i < nD; i++ {
		if !r.Mine("D", i) {
			continue
		}
		rng := r.Rand("D", i)
		sc := &cScript{Backoff: cBackoff{InitialInterval: int64(time.Millisecond), Multiplier: 1.5, Jitter: []float64{-1, 0.5}[rng.IntN(2)], MaxRetries: []int{-1, -1, 0, 1, 2, 4}[rng.IntN(6)]}, Body: []string{"nil", "bytes"}[rng.IntN(2)]}
		na := 1 + rng.IntN(5)
		cbAt := rng.IntN(na + 1) // na: no callback ends the context in this script
		for k := 0; k < na; k++ {
			a := cGenAttempt(rng, true, false, false)
			if k == cbAt || (a.Kind != "terr" && rng.IntN(3) == 0) {
				a = cAttempt{Kind: "stream", Stream: cGenStream(rng, true), End: []string{"eof", "rerr", "rerr_dl", "rerr_cancel"}[rng.IntN(4)], CancelAtOff: -1}
				switch rng.IntN(3) {
				case 0:
					a.ByteReads = true
				case 1:
					if len(a.Stream) > 1 {
						a.Cuts = mon.NormCuts([]int{1 + rng.IntN(len(a.Stream)-1), 1 + rng.IntN(len(a.Stream)-1)}, len(a.Stream))
					}
				}
			}
			if a.Kind == "stream" && a.End != "rerr_dl" && a.End != "rerr_cancel" && rng.IntN(3) == 0 {
				a.End = []string{"rerr_dl", "rerr_cancel"}[rng.IntN(2)]
			}
			if k == cbAt {
				n := len(interpretAttempt(a, "").Events)
				for kk := min(n, 1+rng.IntN(n+1)); kk >= 1; kk-- {
					a.CancelInCallback = kk
					if so := interpretAttempt(a, ""); so.OptionalFrom > 0 && !so.Ambiguous {
						break
					}
					a.CancelInCallback = 0
				}
				if a.CancelInCallback > 0 {
					r.Count("context_ended_in_callback", 1)
				}
			}
			if a.End == "rerr_dl" || a.End == "rerr_cancel" {
				r.Count("read_errors_wrapping_a_context_error", 1)
			}
			sc.Attempts = append(sc.Attempts, a)
		}
		if rng.IntN(3) == 0 {
			sc.Deadline = true
		} else if rng.IntN(4) == 0 {
			sc.Cause = true
		}
		cRun(t, r, fw.Key("D", i), sc, "C11")
		if i < 8 {
			r.Sample("script_context_ended_in_callback", 2, sc)
		}
	}
	// (C) sse.Read reports a read error as itself and ErrUnexpectedEOF only for a clean mid-line end.
	idx = 0
	for _, base := range c11Bases {
		for cut := 0; cut <= len(base); cut++ {
			i := idx
			idx++
			if !r.Mine("C", i) {
				continue
			}
			key := fw.Key("C", i)
			r.Begin(key, base[:cut])
			for vi, bytewise := range []bool{false, true, false, true} {
				var e error = &readErr{cut}
				if vi >= 2 {
					e = &eofWrapErr{cut}
				}
				cr := &mon.ChunkReader{Data: base[:cut], EndErr: e}
				if bytewise {
					cr.Cuts = mon.EveryByte(cut)
				}
				obs := runRead(cr, nil, -1)
				r.Count("read_executions", 1)
				if obs.Err != e || len(obs.Proto) > 0 {
					tags := []string{"read_error_not_reported_as_itself"}
					if errors.Is(obs.Err, sse.ErrUnexpectedEOF) {
						tags = append(tags, "read_error_reported_as_unexpected_eof")
					}
					r.Violation(key, tags, map[string]any{"stream": fw.Q(base[:cut]), "bytewise": bytewise, "got": fmt.Sprint(obs.Err), "proto": obs.Proto}, "C11: sse.Read over a reader failing after %d bytes yielded %v instead of the read error", cut, obs.Err)
				}
			}
			r.Eval(fw.Hash("c11C", base[:cut]), cut > 0)
		}
	}
}

// ---- C12 -------------------------------------------------------------------------------------

func TestC12(t *testing.T) {
	r := fw.Start(t, "C12")
	defer r.Finish()
	againPhase(t, r, "C12", r.N(1500, 30000), map[string]bool{"attempts": true, "onretry": true})
	ms := int64(time.Millisecond)
	inits := []int64{0, ms, 10 * ms, 500 * ms, 3 * int64(time.Second), 7}
	mults := []float64{0, 1, 1.5, 2, 10, 0.5, 1.0000001}
	jitters := []float64{-1, -1, 0, 0.1, 0.5, 0.99, 1, 2, -0.5}
	maxInts := []int64{0, 0, 1, ms / 2, 20 * ms, int64(time.Second), int64(time.Hour)}
	maxEl := []int64{0, 0, 0, 1, 5 * ms, 100 * ms, 10 * int64(time.Second), int64(time.Hour)}
	maxRet := []int{-1, 0, 0, 1, 3, 7}
	n := r.N(8000, 200000)
	for i := 0; i < n; i++ {
		if !r.Mine("S", i) {
			continue
		}
		rng := r.Rand("S", i)
		sc := &cScript{Body: "nil", Backoff: cBackoff{
			InitialInterval: inits[rng.IntN(len(inits))], Multiplier: mults[rng.IntN(len(mults))], Jitter: jitters[rng.IntN(len(jitters))],
			MaxInterval: maxInts[rng.IntN(len(maxInts))], MaxElapsedTime: maxEl[rng.IntN(len(maxEl))], MaxRetries: maxRet[rng.IntN(len(maxRet))],
		}}
		if i%5 == 0 {
			sc.Backoff = cBackoff{} // defaults
			sc.Backoff.MaxRetries = maxRet[rng.IntN(len(maxRet))]
		}
		na := 1 + rng.IntN(30)
		if i%40 == 3 {
			na = 150 + rng.IntN(150) // a long life: hundreds of attempts
		}
		rejects := rng.IntN(4) == 0
		sc.CustomValidator = rejects
		for k := 0; k < na; k++ {
			a := cGenAttempt(rng, true, rejects, false)
			if rng.IntN(6) == 0 {
				a.Latency = int64(rng.IntN(int(20 * ms)))
			}
			if a.Kind == "stream" && a.CancelAtOff < 0 && rng.IntN(5) == 0 {
				// the connection stays quiet for a while before the stream begins
				a.StreamDelay = []int64{3 * ms, 50 * ms, int64(time.Second), int64(30 * time.Second)}[rng.IntN(4)]
			}
			sc.Attempts = append(sc.Attempts, a)
		}
		cRun(t, r, fw.Key("S", i), sc, "C12")
		if i < 32 {
			r.Sample("script", 2, sc)
		}
	}
}
