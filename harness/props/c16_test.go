package props

import (
	"context"
	"errors"
	"fmt"
	"log/slog"
	"math/rand/v2"
	"net/http"
	"net/http/httptest"
	"strings"
	"testing"
	"testing/synctest"
	"time"

	sse "github.com/tmaxmax/go-sse"

	"verifharness/fw"
	"verifharness/mon"
)

// ---- C16: Session and Server keep the HTTP side of the protocol ------------------------

type c16Op struct {
	Kind string   `json:"kind"` // "send" | "flush"
	Ops  []string `json:"message_ops,omitempty"`
	Enc  string   `json:"-"`
	msg  *sse.Message
	// live/mutate: the Send is given this object after the mutate-th field change was applied to it again
	live   *sse.Message
	mutate int
}

var errInjectedRW = errors.New("injected response writer failure")

// errInjectedNotSupported: a flush failure that wraps http.ErrNotSupported (what a wrapping
// ResponseController reports when the inner writer cannot flush). It is a flush failure like any other.
var errInjectedNotSupported = fmt.Errorf("injected: %w", http.ErrNotSupported)

type c16Result struct {
	Rets []error
	Core *mon.CoreRW
	// Body and Log as they were when the script ended (before the carry-on step)
	Body string
	Log  []mon.RWLog
	// carry-on: after a failed call the handler sends one more message on the same session
	Carried       bool
	CarryRet      error
	CarryAppended string
	// a failed Flush tried again before anything else is sent
	FlushRetried    bool
	FlushRetryRet   error
	LogAtFlushRetry []mon.RWLog
}

const c16CarryEnc = "data: after-the-failure\n\n"

// c16ReqCtx: 0 = live request context, 1 = already cancelled, 2 = cancelled with a cause of its own
var c16ReqCtx int

var errC16Cause = errors.New("request ended for a reason of its own")

var c16Err error = errInjectedRW

func c16RunSession(shape string, script []c16Op, failAt, accept int, preCT string) (res c16Result, upgradeErr error) {
	core := mon.NewCoreRW()
	if preCT != "" {
		// something earlier (middleware, handler code before Upgrade) already put a Content-Type there
		core.Hdr["Content-Type"] = []string{preCT}
	}
	core.FailAt, core.Accept, core.Err = failAt, accept, c16Err
	w, _ := mon.MakeRW(shape, core)
	req := httptest.NewRequest(http.MethodGet, "http://verif.invalid/", http.NoBody)
	switch c16ReqCtx {
	case 1:
		ctx, cancel := context.WithCancel(req.Context())
		cancel()
		req = req.WithContext(ctx)
	case 2:
		ctx, cancel := context.WithCancelCause(req.Context())
		cancel(errC16Cause)
		req = req.WithContext(ctx)
	}
	sess, err := sse.Upgrade(w, req)
	res.Core = core
	if err != nil {
		res.Body, res.Log = core.Body.String(), append([]mon.RWLog(nil), core.Log...)
		return res, err
	}
	defer func() {
		res.Body, res.Log = core.Body.String(), append([]mon.RWLog(nil), core.Log...)
		if n := len(res.Rets); n > 0 && res.Rets[n-1] != nil {
			// the handler carries on after the failed call (the writer works again): when it was a Flush
			// that failed, every other execution first tries that Flush again
			if script[n-1].Kind == "flush" && failAt%2 == 0 {
				res.FlushRetried = true
				res.FlushRetryRet = sess.Flush()
				res.LogAtFlushRetry = append([]mon.RWLog(nil), core.Log...)
				res.Body = core.Body.String()
			}
			m := &sse.Message{}
			m.AppendData("after-the-failure")
			res.Carried = true
			res.CarryRet = sess.Send(m)
			if b := core.Body.String(); len(b) >= len(res.Body) {
				res.CarryAppended = b[len(res.Body):]
			}
		}
	}()
	for _, op := range script {
		var e error
		if op.Kind == "send" {
			m := op.msg
			if op.live != nil {
				// re-apply the field change on the live object (the script is executed many times)
				m = op.live
				m.ID, m.Type, m.Retry = op.msg.ID, op.msg.Type, op.msg.Retry
			}
			e = sess.Send(m)
		} else {
			e = sess.Flush()
		}
		res.Rets = append(res.Rets, e)
		if e != nil {
			break // a failed session is abandoned, as a provider does
		}
	}
	return res, nil
}

// c16Judge checks one execution.
func c16Judge(shape string, script []c16Op, res c16Result, failAt int) (out []jv) {
	log := res.Log
	if res.Carried && res.CarryRet == nil && res.CarryAppended != c16CarryEnc {
		out = append(out, jvf([]string{"send_after_failed_call_wrong"}, "after a failed call the next Send returned nil but appended %q to the body, want exactly its own encoding %q", fw.Trunc(res.CarryAppended, 200), c16CarryEnc))
	}
	if res.FlushRetried && res.FlushRetryRet == nil {
		lw, lf := -1, -1
		for i, l := range res.LogAtFlushRetry {
			if l.Op == "write" {
				lw = i
			}
			if l.Op == "flush" && !l.Err {
				lf = i
			}
		}
		if lw >= 0 && lf < lw {
			out = append(out, jvf([]string{"flush_does_not_push", "flush_retried_after_failure"}, "a Flush failed, the next Flush returned nil, but the last write (log %d) is still not followed by a successful flush of the writer (last: %d)", lw, lf))
		}
	}
	// (1) header set and flushed before the first body byte; no header access after a successful upgrade
	firstWrite := -1
	for i, l := range log {
		if l.Op == "write" {
			firstWrite = i
			break
		}
	}
	upgraded := -1 // index of the first successful flush that saw the content type
	for i, l := range log {
		if l.Op == "flush" && !l.Err && l.CT == "text/event-stream" {
			upgraded = i
			break
		}
	}
	if firstWrite >= 0 {
		if log[firstWrite].CT != "text/event-stream" {
			out = append(out, jvf([]string{"content_type_missing_at_first_write"}, "first body write happened with Content-Type %q", log[firstWrite].CT))
		}
		if upgraded < 0 || upgraded > firstWrite {
			out = append(out, jvf([]string{"no_flush_before_first_write"}, "first body write (log index %d) was not preceded by a successful flush of the headers", firstWrite))
		}
	}
	if upgraded >= 0 {
		for i := upgraded + 1; i < len(log); i++ {
			if log[i].Op == "header" || log[i].Op == "writeheader" {
				out = append(out, jvf([]string{"header_touched_after_upgrade"}, "%s at log index %d after the stream had started", log[i].Op, i))
				break
			}
		}
	}
	for _, l := range log {
		if (l.Op == "write" || l.Op == "flush") && l.CT != "text/event-stream" {
			out = append(out, jvf([]string{"content_type_wrong"}, "Content-Type is %q", l.CT))
			break
		}
	}
	// (2) body == concatenation of the encodings of the Sends that returned nil (+ accepted prefix of the failing one)
	var want strings.Builder
	failedCall := -1
	for i, r := range res.Rets {
		if r != nil {
			failedCall = i
			break
		}
		if script[i].Kind == "send" {
			want.WriteString(script[i].Enc)
		}
	}
	body := res.Body
	if failedCall >= 0 && script[failedCall].Kind == "send" {
		if !strings.HasPrefix(body, want.String()) || !strings.HasPrefix(want.String()+script[failedCall].Enc, body) {
			out = append(out, jvf([]string{"body_wrong"}, "body is not the successful messages plus a prefix of the failing one (len %d)", len(body)))
		}
	} else if body != want.String() {
		out = append(out, jvf([]string{"body_wrong"}, "body (%d bytes) differs from the concatenation of the sent messages' encodings (%d bytes)", len(body), want.Len()))
	}
	// (3) the injected failure is returned by the call during which it happened
	if res.Core.Failed {
		if failedCall < 0 {
			out = append(out, jvf([]string{"failure_swallowed"}, "the writer failed at operation %d but every Send/Flush returned nil", failAt))
		} else if !errors.Is(res.Rets[failedCall], c16Err) {
			out = append(out, jvf([]string{"failure_error_wrong"}, "the writer failed but the call returned %v", res.Rets[failedCall]))
		}
		// nothing may be written after the failure
		seenFail := false
		for _, l := range log {
			if seenFail && (l.Op == "write" || l.Op == "flush") {
				out = append(out, jvf([]string{"io_after_failure"}, "%s on the writer after it had failed (within the same call)", l.Op))
				break
			}
			if l.Err {
				seenFail = true
			}
		}
	} else if failedCall >= 0 {
		out = append(out, jvf([]string{"error_without_failure"}, "call %d returned %v although the writer never failed", failedCall, res.Rets[failedCall]))
	}
	// (4) Flush pushes everything sent so far: after each Flush that returned nil, the last write is followed by a flush
	idx := 0 // walk the log alongside the calls is not possible (no call markers); check at the end of successful prefixes instead
	_ = idx
	lastOKFlush := -1
	for i, r := range res.Rets {
		if r == nil && script[i].Kind == "flush" {
			lastOKFlush = i
		}
	}
	if lastOKFlush >= 0 && lastOKFlush == len(res.Rets)-1 {
		// the script ended (or was cut) right after a successful Flush: the log must end with a flush after the last write
		lw, lf := -1, -1
		for i, l := range log {
			if l.Op == "write" {
				lw = i
			}
			if l.Op == "flush" && !l.Err {
				lf = i
			}
		}
		if lf < 0 || lf < lw {
			out = append(out, jvf([]string{"flush_does_not_push"}, "Flush returned nil but the last write (log %d) is not followed by a flush of the writer (last flush %d)", lw, lf))
		}
	}
	return out
}

type recProvider struct {
	returnSendErr bool
	subs          []sse.Subscription
	subErr        error
	pubs          [][]string
	sendInSub     []*sse.Message
	sendErrs      []error
}

func (p *recProvider) Subscribe(_ context.Context, s sse.Subscription) error {
	p.subs = append(p.subs, s)
	for _, m := range p.sendInSub {
		err := s.Client.Send(m)
		if err == nil {
			err = s.Client.Flush()
		}
		p.sendErrs = append(p.sendErrs, err)
		if err != nil && p.returnSendErr {
			return err
		}
	}
	return p.subErr
}
func (p *recProvider) Publish(_ *sse.Message, topics []string) error {
	p.pubs = append(p.pubs, topics)
	return nil
}
func (p *recProvider) Shutdown(context.Context) error { return nil }

var errSubscribe = errors.New("injected subscribe refusal")

func TestC16(t *testing.T) {
	r := fw.Start(t, "C16")
	defer r.Finish()

	// (A) Session: scripts x shapes x failure at every underlying write/flush operation
	n := r.N(3000, 60000)
	flushShapes := []string{"flusher", "flusherror", "both", "unwrap-flusher", "unwrap-flusherror", "unwrap2-both", "unwrap12-flusherror", "unwrap40-flusher"}
	for i := 0; i < n; i++ {
		if !r.Mine("A", i) {
			continue
		}
		key := fw.Key("A", i)
		rng := r.Rand("A", i)
		var script []c16Op
		nops := 1 + rng.IntN(8)
		for k := 0; k < nops; k++ {
			if rng.IntN(3) == 0 {
				script = append(script, c16Op{Kind: "flush"})
			} else {
				b := genMessage(rng, false, false)
				for len(b.Model.Lines) > 30 || len(b.Msg.String()) > 4096 {
					b = genMessage(rng, false, false)
				}
				script = append(script, c16Op{Kind: "send", Ops: b.Ops, Enc: b.Msg.String(), msg: b.Msg})
			}
		}
		// the handler sends one Message value several times, changing a field in between
		// (a counter as ID, another type): each Send writes what the message is at that moment
		if rng.IntN(3) == 0 {
			var script2 []c16Op
			var reused *sse.Message
			n := 0
			for _, op := range script {
				if op.Kind != "send" {
					script2 = append(script2, op)
					continue
				}
				if reused == nil {
					reused = op.msg
				}
				n++
				// the script holds a snapshot (a clone) for the encoding; the session is given the live object
				switch n % 3 {
				case 0:
					reused.ID = sse.ID("seq-" + fmt.Sprint(n))
				case 1:
					reused.Type = sse.Type("kind-" + fmt.Sprint(n))
				default:
					reused.Retry = time.Duration(n) * time.Second
				}
				script2 = append(script2, c16Op{Kind: "send", Ops: append(append([]string{}, op.Ops...), "(same Message value as before, field changed)"), Enc: reused.String(), msg: reused.Clone(), live: reused, mutate: n})
			}
			script = script2
		}
		shape := flushShapes[rng.IntN(len(flushShapes))]
		r.Begin(key, fmt.Sprintf("shape=%s script=%+v", shape, script))
		preCT := []string{"", "", "text/plain; charset=utf-8", "application/json"}[rng.IntN(4)]
		c16Err = errInjectedRW
		if rng.IntN(3) == 0 {
			c16Err = errInjectedNotSupported
		}
		// a third of the sessions belong to a request whose context has ended already (the writer's
		// own errors are still what Send and Flush report)
		c16ReqCtx = []int{0, 0, 0, 1, 2, 2}[rng.IntN(6)]
		base, uerr := c16RunSession(shape, script, -1, -1, preCT)
		r.Eval(fw.Hash(shape, fmt.Sprintf("%+v", script)), len(script) > 1)
		if uerr != nil {
			r.Violation(key, []string{"upgrade_failed"}, map[string]any{"shape": shape}, "C16: Upgrade failed on a flushing writer: %v", uerr)
			continue
		}
		report := func(fs []jv, failAt, accept int, res c16Result) {
			if len(fs) == 0 {
				return
			}
			tags := map[string]bool{"shape_" + shape: true}
			var msgs []string
			for _, f := range fs {
				for _, tg := range f.Tags {
					tags[tg] = true
				}
				msgs = append(msgs, f.Msg)
			}
			var tl []string
			for tg := range tags {
				tl = append(tl, tg)
			}
			var lg []string
			for _, l := range res.Core.Log {
				lg = append(lg, fmt.Sprintf("%s n=%d/%d err=%v ct=%q", l.Op, l.N, l.Len, l.Err, l.CT))
			}
			if len(lg) > 60 {
				lg = lg[:60]
			}
			var rets []string
			for _, e := range res.Rets {
				rets = append(rets, fmt.Sprint(e))
			}
			r.Violation(key, tl, map[string]any{"shape": shape, "script": script, "preset_content_type": preCT, "request_context": c16ReqCtx, "fail_at_op": failAt, "accept": accept, "returns": rets, "writer_log": lg, "findings": msgs}, "C16: %s (+%d more)", fs[0].Msg, len(fs)-1)
		}
		report(c16Judge(shape, script, base, -1), -1, -1, base)
		W := base.Core.Ops()
		r.Count("session_scripts", 1)
		r.Max("max_ops_per_script", int64(W))
		for k := 0; k < W; k++ {
			if W > 80 && k > 20 && k < W-20 && k%(W/40+1) != 0 {
				continue
			}
			for _, acc := range []int{0, 1, -1} {
				res, _ := c16RunSession(shape, script, k, acc, preCT)
				r.Count("faulted_executions", 1)
				report(c16Judge(shape, script, res, k), k, acc, res)
			}
		}
		if i < 16 {
			r.Sample("session_script", 2, map[string]any{"shape": shape, "script": script, "underlying_ops": W})
		}
	}

	// (B) Upgrade on every shape
	for i, shape := range mon.RWShapes {
		if !r.Mine("B", i) {
			continue
		}
		key := fw.Key("B", i)
		r.Begin(key, shape)
		core := mon.NewCoreRW()
		w, canFlush := mon.MakeRW(shape, core)
		_, err := sse.Upgrade(w, httptest.NewRequest(http.MethodGet, "http://verif.invalid/", http.NoBody))
		r.Eval(fw.Hash("shape", shape), true)
		if canFlush && err != nil || !canFlush && !errors.Is(err, sse.ErrUpgradeUnsupported) {
			r.Violation(key, []string{"upgrade_result_wrong", "shape_" + shape}, map[string]any{"shape": shape}, "C16: Upgrade on shape %s returned %v (can flush: %v)", shape, err, canFlush)
		}
		if len(core.Log) != 0 {
			r.Violation(key, []string{"upgrade_touches_writer"}, map[string]any{"shape": shape}, "C16: Upgrade alone touched the response writer")
		}
	}

	// (C) ServeHTTP
	m := r.N(4000, 60000)
	headerPool := [][]string{nil, {""}, {"7"}, {"abc def"}, {"a\nb"}, {"a\r"}, {"", "7"}, {"7", "8"}, {"\n"}, {"x\x00y"}, {" "}, {"é"}}
	for i := 0; i < m; i++ {
		if !r.Mine("C", i) {
			continue
		}
		key := fw.Key("C", i)
		rng := r.Rand("C", i)
		shape := mon.RWShapes[rng.IntN(len(mon.RWShapes))]
		hv := headerPool[rng.IntN(len(headerPool))]
		if rng.IntN(4) == 0 {
			hv = []string{pickString(rng)}
			if len(hv[0]) > 200 {
				hv[0] = hv[0][:200]
			}
		}
		onMode := rng.IntN(7) // 0 nil func, 1 (nil,true), 2 (topics,true), 3 (x,false) silent, 4 (x,false) writes 403, 5 (empty slice,true), 6 (one topic,true)
		subRefuses := rng.IntN(4) == 0
		sendsFirst := rng.IntN(3) == 0
		firstFlushFails := sendsFirst && rng.IntN(3) == 0 && strings.Contains(shape, "flusherror") || sendsFirst && rng.IntN(3) == 0 && strings.Contains(shape, "both")
		r.Begin(key, fmt.Sprintf("shape=%s header=%q on=%d refuse=%v sendsFirst=%v firstFlushFails=%v", shape, hv, onMode, subRefuses, sendsFirst, firstFlushFails))
		core := mon.NewCoreRW()
		core.Err = errInjectedRW
		if rng.IntN(2) == 0 {
			core.Err = errInjectedNotSupported
		}
		w, canFlush := mon.MakeRW(shape, core)
		// a third of the requests carry look-alikes of the header in the URL: only the header counts
		target := "http://verif.invalid/"
		if rng.IntN(3) == 0 {
			target = "http://verif.invalid/events?lastEventId=fromquery&last-event-id=fromquery&Last-Event-ID=fromquery&lastEventID=fromquery&last_event_id=fromquery&id=fromquery"
		}
		// event streams are also requested with POST or PUT (a prompt, a query in the body)
		method := []string{http.MethodGet, http.MethodGet, http.MethodPost, http.MethodPut}[rng.IntN(4)]
		req := httptest.NewRequest(method, target, http.NoBody)
		if hv != nil {
			req.Header["Last-Event-Id"] = hv
		}
		reqCtxDone := rng.IntN(4) == 0
		if reqCtxDone {
			// the client is already gone when the handler runs: the obligations towards the
			// response writer are the same
			cctx, ccancel := context.WithCancel(req.Context())
			ccancel()
			req = req.WithContext(cctx)
		}
		prov := &recProvider{}
		if subRefuses {
			prov.subErr = errSubscribe
		}
		if sendsFirst {
			mm := &sse.Message{}
			mm.AppendData("hello")
			prov.sendInSub = []*sse.Message{mm}
		}
		if onMode == 3 || onMode == 4 {
			firstFlushFails = false
		}
		if firstFlushFails {
			core.FailAt = 0 // the flush of the headers fails: nothing was sent
			prov.returnSendErr = true
		}
		srv := &sse.Server{Provider: prov}
		// a third of the servers log (the handler discards), a third have a Logger that returns nil
		switch logMode := rng.IntN(3); logMode {
		case 1:
			srv.Logger = func(*http.Request) *slog.Logger { r.Count("logger_calls", 1); return slog.New(slog.DiscardHandler) }
		case 2:
			srv.Logger = func(*http.Request) *slog.Logger { return nil }
		}
		topics := []string{"t1", "t2"}
		onCalled := 0
		logAtOn := 0
		switch onMode {
		case 1:
			srv.OnSession = func(http.ResponseWriter, *http.Request) ([]string, bool) { onCalled++; return nil, true }
		case 2:
			srv.OnSession = func(http.ResponseWriter, *http.Request) ([]string, bool) { onCalled++; return topics, true }
		case 3:
			srv.OnSession = func(http.ResponseWriter, *http.Request) ([]string, bool) { onCalled++; return topics, false }
		case 4:
			srv.OnSession = func(rw http.ResponseWriter, _ *http.Request) ([]string, bool) {
				onCalled++
				rw.WriteHeader(http.StatusForbidden)
				rw.Write([]byte("no"))
				logAtOn = len(core.Log)
				return nil, false
			}
		case 5:
			srv.OnSession = func(http.ResponseWriter, *http.Request) ([]string, bool) { onCalled++; return []string{}, true }
		case 6:
			topics = []string{"only"}
			srv.OnSession = func(http.ResponseWriter, *http.Request) ([]string, bool) { onCalled++; return topics, true }
		}
		srv.ServeHTTP(w, req)
		r.Count("servehttp_executions", 1)
		r.Eval(fw.Hash("serve", shape, fmt.Sprint(hv, onMode, subRefuses, sendsFirst)), true)
		var fs []jv
		body := core.Body.String()
		switch {
		case !canFlush:
			if core.Code != http.StatusInternalServerError {
				fs = append(fs, jvf([]string{"no_500_without_flusher"}, "response writer cannot flush but the status is %d", core.Code))
			}
			if len(prov.subs) != 0 || onCalled != 0 {
				fs = append(fs, jvf([]string{"subscribed_without_flusher"}, "provider/OnSession used although the writer cannot flush"))
			}
		case onMode == 3 || onMode == 4:
			if len(prov.subs) != 0 {
				fs = append(fs, jvf([]string{"subscribed_after_rejection"}, "OnSession rejected the request but the provider was subscribed"))
			}
			if onMode == 3 && len(core.Log) != 0 {
				fs = append(fs, jvf([]string{"writes_after_rejection"}, "OnSession rejected the request silently but ServeHTTP touched the writer: %+v", core.Log))
			}
			if onMode == 4 && (len(core.Log) != logAtOn || core.Code != http.StatusForbidden || body != "no") {
				fs = append(fs, jvf([]string{"writes_after_rejection"}, "OnSession wrote its own 403 but ServeHTTP added to the response (code %d body %q)", core.Code, body))
			}
		default:
			if len(prov.subs) != 1 {
				fs = append(fs, jvf([]string{"subscribe_count_wrong"}, "provider.Subscribe called %d times", len(prov.subs)))
				break
			}
			sub := prov.subs[0]
			wantSet := len(hv) > 0 && hv[0] != "" && !hasNewline(hv[0])
			if sub.LastEventID.IsSet() != wantSet || (wantSet && sub.LastEventID.String() != hv[0]) {
				fs = append(fs, jvf([]string{"last_event_id_wrong"}, "header %q gave Subscription.LastEventID=%q set=%v, want set=%v", hv, sub.LastEventID.String(), sub.LastEventID.IsSet(), wantSet))
			}
			wantTopics := []string{sse.DefaultTopic}
			if onMode == 2 || onMode == 6 {
				wantTopics = topics
			}
			if !eqStrings(sub.Topics, wantTopics) {
				fs = append(fs, jvf([]string{"topics_wrong"}, "Subscription.Topics=%q, want %q", sub.Topics, wantTopics))
			}
			if sub.Client == nil {
				fs = append(fs, jvf([]string{"client_nil"}, "Subscription.Client is nil"))
			}
			if subRefuses && !sendsFirst && !firstFlushFails {
				if core.Code != http.StatusInternalServerError || !strings.Contains(body, errSubscribe.Error()) {
					fs = append(fs, jvf([]string{"no_500_on_subscribe_error"}, "provider refused the subscription before anything was sent but the response is code %d body %q", core.Code, body))
				}
			}
			if !subRefuses && !sendsFirst && len(core.Log) != 0 {
				fs = append(fs, jvf([]string{"writes_without_events"}, "nothing was sent and Subscribe returned nil but ServeHTTP touched the writer: %+v", core.Log))
			}
			if firstFlushFails {
				if len(prov.sendErrs) != 1 || !errors.Is(prov.sendErrs[0], core.Err) {
					fs = append(fs, jvf([]string{"failure_swallowed"}, "the header flush failed but Send returned %v", prov.sendErrs))
				} else if core.Code != http.StatusInternalServerError || !strings.Contains(body, core.Err.Error()) {
					fs = append(fs, jvf([]string{"no_500_on_subscribe_error"}, "the provider's first Send failed at the header flush (nothing was sent) and Subscribe returned that error, but the response is code %d body %q", core.Code, body))
				}
			} else if sendsFirst {
				if len(prov.sendErrs) != 1 || prov.sendErrs[0] != nil {
					fs = append(fs, jvf([]string{"send_through_session_failed"}, "sending through the session failed: %v", prov.sendErrs))
				} else if !strings.HasPrefix(body, "data: hello\n\n") {
					fs = append(fs, jvf([]string{"body_wrong"}, "event sent through the subscription's client did not reach the writer: %q", body))
				}
			}
		}
		if len(fs) > 0 {
			tags := map[string]bool{"shape_" + shape: true}
			var msgs []string
			for _, f := range fs {
				for _, tg := range f.Tags {
					tags[tg] = true
				}
				msgs = append(msgs, f.Msg)
			}
			var tl []string
			for tg := range tags {
				tl = append(tl, tg)
			}
			r.Violation(key, tl, map[string]any{"shape": shape, "header": hv, "on_session_mode": onMode, "subscribe_refuses": subRefuses, "provider_sends_first": sendsFirst, "first_flush_fails": firstFlushFails, "request_context_done": reqCtxDone, "method": method, "findings": msgs}, "C16: %s (+%d more)", fs[0].Msg, len(fs)-1)
		}
	}
	// (D) Server.Publish without topics reaches the provider with [DefaultTopic]
	if r.Mine("D", 0) {
		key := fw.Key("D", 0)
		r.Begin(key, "publish topics")
		prov := &recProvider{}
		// a request that arrives after Shutdown and that OnSession rejects: the rejection is all the client gets
		func() {
			srv := &sse.Server{}
			srv.OnSession = func(w http.ResponseWriter, _ *http.Request) ([]string, bool) {
				w.WriteHeader(http.StatusUnauthorized)
				w.Write([]byte("no"))
				return nil, false
			}
			srv.Shutdown(context.Background())
			core := mon.NewCoreRW()
			w, _ := mon.MakeRW("both", core)
			srv.ServeHTTP(w, httptest.NewRequest(http.MethodGet, "http://verif.invalid/", http.NoBody))
			if core.Code != http.StatusUnauthorized || core.Body.String() != "no" {
				r.Violation(key, []string{"writes_on_rejected_request", "after_shutdown"}, map[string]any{"status": core.Code, "body": fw.Q(core.Body.String())}, "C16: after Shutdown, a request rejected by OnSession got status %d and body %q (want OnSession's own 401 / \"no\")", core.Code, core.Body.String())
			}
		}()
		// Shutdown may be the first thing ever called on a Server (with and without a Provider)
		func() {
			defer func() {
				if p := recover(); p != nil {
					r.Violation(key, []string{"server_shutdown_first_panics"}, nil, "C16: Shutdown as the first call on a Server panics: %v", p)
				}
			}()
			(&sse.Server{}).Shutdown(context.Background())
			(&sse.Server{Provider: &recProvider{}}).Shutdown(context.Background())
		}()
		srv := &sse.Server{Provider: prov}
		mm := &sse.Message{}
		mm.AppendData("x")
		srv.Publish(mm)
		srv.Publish(mm, "a", "b")
		r.Eval(fw.Hash("publish"), true)
		if len(prov.pubs) != 2 || !eqStrings(prov.pubs[0], []string{sse.DefaultTopic}) || !eqStrings(prov.pubs[1], []string{"a", "b"}) {
			r.Violation(key, []string{"publish_topics_wrong"}, map[string]any{"got": prov.pubs}, "C16: Server.Publish passed topics %q to the provider", prov.pubs)
		}
	}
	// (E) the zero-value Server (its own Joe): a session subscribed through ServeHTTP gets exactly the
	// messages published to its topics, with the header set before the first byte
	ne := r.N(160, 1600)
	for i := 0; i < ne; i++ {
		if !r.Mine("E", i) {
			continue
		}
		key := fw.Key("E", i)
		rng := r.Rand("E", i)
		shape := []string{"flusher", "flusherror", "both", "unwrap2-both"}[rng.IntN(4)]
		withTopics := rng.IntN(2) == 0
		npub := 1 + rng.IntN(6)
		withBroken := rng.IntN(2) == 0
		r.Begin(key, fmt.Sprintf("zero-value server shape=%s topics=%v pubs=%d second_session_breaks=%v", shape, withTopics, npub, withBroken))
		var want strings.Builder
		var body string
		var ctAtFirstWrite string
		var pubErrs []error
		synctest.Test(t, func(t *testing.T) {
			srv := &sse.Server{}
			if withTopics {
				srv.OnSession = func(http.ResponseWriter, *http.Request) ([]string, bool) { return []string{"t1", "t2"}, true }
			}
			core := mon.NewCoreRW()
			w, _ := mon.MakeRW(shape, core)
			req := httptest.NewRequest(http.MethodGet, "http://verif.invalid/", http.NoBody)
			done := make(chan struct{})
			go func() { defer close(done); srv.ServeHTTP(w, req) }()
			// a second session on the same Server whose connection breaks in the middle of a write
			// (a few bytes of it are accepted): what it did not get is nobody else's
			done2 := make(chan struct{})
			if withBroken {
				core2 := mon.NewCoreRW()
				core2.FailAt, core2.Accept, core2.Err = 2+rng.IntN(8), 1+rng.IntN(3), errInjectedRW
				w2, _ := mon.MakeRW(shape, core2)
				req2 := httptest.NewRequest(http.MethodGet, "http://verif.invalid/", http.NoBody)
				go func() { defer close(done2); srv.ServeHTTP(w2, req2) }()
			} else {
				close(done2)
			}
			synctest.Wait()
			for k := 0; k < npub; k++ {
				m := &sse.Message{}
				m.AppendData("p" + fmt.Sprint(k))
				var tp []string
				switch rng.IntN(4) {
				case 0: // no topics: DefaultTopic
				case 1:
					tp = []string{"t2"}
				case 2:
					tp = []string{"elsewhere"}
				case 3:
					tp = []string{"t1", "t2", sse.DefaultTopic}
				}
				match := !withTopics && (len(tp) == 0 || len(tp) == 3) || withTopics && (len(tp) == 1 && tp[0] == "t2" || len(tp) == 3)
				if match {
					want.WriteString(m.String())
				}
				pubErrs = append(pubErrs, srv.Publish(m, tp...))
				synctest.Wait()
			}
			srv.Shutdown(context.Background())
			<-done
			<-done2
			body = core.Body.String()
			for _, l := range core.Log {
				if l.Op == "write" {
					ctAtFirstWrite = l.CT
					break
				}
			}
		})
		r.Count("zero_value_server_sessions", 1)
		r.Eval(fw.Hash("E", shape, fmt.Sprint(withTopics, npub, want.String())), true)
		for k, e := range pubErrs {
			if e != nil {
				r.Violation(key, []string{"publish_failed"}, map[string]any{"shape": shape}, "C16: zero-value Server: Publish #%d returned %v", k+1, e)
			}
		}
		if body != want.String() {
			r.Violation(key, []string{"body_not_concatenation"}, map[string]any{"shape": shape, "on_session_topics": withTopics, "second_session_breaks": withBroken, "got": fw.Q(body), "want": fw.Q(want.String())}, "C16: zero-value Server: the session's body is not the concatenation of the messages published to its topics")
		}
		if body != "" && ctAtFirstWrite != "text/event-stream" {
			r.Violation(key, []string{"content_type_not_set_before_first_byte"}, map[string]any{"shape": shape, "content_type": ctAtFirstWrite}, "C16: zero-value Server: Content-Type at the first body write is %q", ctAtFirstWrite)
		}
	}
}

var _ = rand.IntN
