package props

import (
	"bufio"
	"bytes"
	"context"
	"errors"
	"fmt"
	"io"
	"math"
	"net/http"
	"strings"
	"sync"
	"sync/atomic"
	"testing"
	"testing/synctest"
	"time"

	sse "github.com/tmaxmax/go-sse"

	"verifharness/mon"
	"verifharness/ref"
)

// ---- script ---------------------------------------------------------------------------------

type cAttempt struct {
	Kind        string `json:"kind"` // "terr" | "reject" | "stream"
	Stream      string `json:"stream,omitempty"`
	End         string `json:"end,omitempty"` // "eof" | "rerr"
	CancelAtOff int    `json:"cancel_at_off"` // -1: never; x: once x bytes were delivered the next body Read cancels the context and returns ctx.Err()
	CancelInRT  bool   `json:"cancel_in_rt,omitempty"`
	// RTErrAfterCancel: with CancelInRT, RoundTrip returns a transport error of its own (not the
	// context's) after the context ended.
	RTErrAfterCancel bool `json:"rt_err_after_cancel,omitempty"`
	// Oversized: the stream ends with an event larger than the connection's buffer limit
	// (cScript.BufMax): the read fails with bufio.ErrTooLong, which is a lost connection like any other.
	Oversized bool  `json:"oversized,omitempty"`
	Latency   int64 `json:"latency,omitempty"` // virtual ns spent inside RoundTrip
	// ViaRedirect: the response was reached through a followed permanent redirect: its Request field is the
	// request net/http built for the final hop (no GetBody, Response set to the 308)
	ViaRedirect bool `json:"via_redirect,omitempty"`
	// StreamDelay: virtual ns that pass on the established connection before the first byte of the stream arrives
	StreamDelay int64 `json:"stream_delay,omitempty"`
	Cuts        []int `json:"cuts,omitempty"`
	ByteReads   bool  `json:"byte_reads,omitempty"`
	// CancelInCallback k > 0: the callback that receives the k-th event of this attempt ends the request
	// context; every later Read of the body answers with the context's error, as a network body does.
	// Events that were already buffered may or may not still be dispatched.
	CancelInCallback int `json:"cancel_in_callback,omitempty"`
}

type cBackoff struct {
	InitialInterval int64   `json:"initial"`
	Multiplier      float64 `json:"multiplier"`
	Jitter          float64 `json:"jitter"`
	MaxInterval     int64   `json:"max_interval"`
	MaxElapsedTime  int64   `json:"max_elapsed"`
	MaxRetries      int     `json:"max_retries"`
}

type cScript struct {
	Backoff      cBackoff   `json:"backoff"`
	Attempts     []cAttempt `json:"attempts"`
	Body         string     `json:"body"` // "nil" | "nobody" | "bytes" | "noget" | "getfail:<j>"
	CancelBefore bool       `json:"cancel_before,omitempty"`
	// CancelInWait: cancel the context in the middle of the wait that follows attempt index (key).
	CancelInWait    map[int]bool `json:"cancel_in_wait,omitempty"`
	CustomValidator bool         `json:"custom_validator,omitempty"`
	// Deadline: the request context ends through a (virtual) deadline instead of cancel();
	// every "cancel" action of the script then waits until the deadline has passed.
	Deadline bool `json:"deadline,omitempty"`
	// Route: "own" (a Client with every field set), "nilhttp" (a Client without HTTPClient: DefaultClient's
	// is used), "pkg" (sse.NewConnection: everything is configured on DefaultClient)
	Route string `json:"route,omitempty"`
	// Poison (route "own"): after NewConnection the Client value and the caller's request are changed
	Poison bool `json:"poison_after_newconnection,omitempty"`
	// BufMax > 0: Connection.Buffer(nil, BufMax)
	BufMax int `json:"buf_max,omitempty"`
	// TimeoutTErrs: transport errors implement Timeout()/Temporary() returning true (a dial or
	// TLS-handshake timeout): still just a failed attempt while the context is live.
	TimeoutTErrs bool `json:"timeout_terrs,omitempty"`
	// Cause: the context is cancelled with a cause (context.WithCancelCause); Connect must still
	// return the context's error (ctx.Err()).
	Cause bool `json:"cause,omitempty"`
}

// blockBody is a response body that never delivers anything until it is closed: a stream
// that stays open. Reading it to the end blocks (durably, inside a bubble).
var errBodyClosed = errors.New("read on closed response body")

// delayedReader lets virtual time pass before the first Read returns.
type delayedReader struct {
	r    io.Reader
	d    time.Duration
	done bool
}

func (d *delayedReader) Read(p []byte) (int, error) {
	if !d.done {
		d.done = true
		time.Sleep(d.d)
	}
	return d.r.Read(p)
}

// closeAware is a response body that records Close.
type closeAware struct {
	io.Reader
	closed   *atomic.Bool
	closeErr error
}

func (c closeAware) Close() error {
	c.closed.Store(true)
	return c.closeErr
}

var errBodyCloseFailed = errors.New("closing the response body failed")

type blockBody struct {
	ch    chan struct{}
	once  sync.Once
	reads atomic.Int32
}

func (b *blockBody) Read(p []byte) (int, error) {
	b.reads.Add(1)
	<-b.ch
	return 0, io.EOF
}

func (b *blockBody) Close() error {
	b.once.Do(func() { close(b.ch) })
	return nil
}

const cBodyText = "request-body-0123456789"

var errValidator = errors.New("injected validator verdict")
var errGetBody = errors.New("injected GetBody failure")

// tempErr is a validator verdict that claims to be temporary / a timeout: the property says a
// validator failure ends Connect at once, whatever the error looks like.
type tempErr struct{ temporary, timeout bool }

func (e *tempErr) Error() string   { return "injected validator verdict (temporary/timeout)" }
func (e *tempErr) Temporary() bool { return e.temporary }
func (e *tempErr) Timeout() bool   { return e.timeout }

// eofWrapErr is a read error that wraps io.EOF (as *net.OpError can): it is a failed read, not a
// clean end of the stream.
type eofWrapErr struct{ n int }

func (e *eofWrapErr) Error() string { return fmt.Sprintf("injected read error #%d wrapping EOF", e.n) }
func (e *eofWrapErr) Unwrap() error { return io.EOF }

type foreignCtxErr struct {
	n int
	e error
}

func (e *foreignCtxErr) Error() string {
	return fmt.Sprintf("injected read error #%d: timeout awaiting the body: %v", e.n, e.e)
}
func (e *foreignCtxErr) Unwrap() error { return e.e }
func (e *foreignCtxErr) Timeout() bool { return true }

type readErr struct{ n int }

func (e *readErr) Error() string { return fmt.Sprintf("injected read error #%d", e.n) }

type transportErr struct {
	n       int
	timeout bool
}

func (e *transportErr) Error() string   { return fmt.Sprintf("injected transport error #%d", e.n) }
func (e *transportErr) Timeout() bool   { return e.timeout }
func (e *transportErr) Temporary() bool { return e.timeout }

var errCancelCause = errors.New("injected cancellation cause")

// ---- observation ----------------------------------------------------------------------------

type cAttemptObs struct {
	HasHeader bool
	Header    []string
	Body      string
	BodyErr   string
	BodyNil   bool
	VTime     time.Duration
	Accept    string
}

type cRetryObs struct {
	Err   error
	D     time.Duration
	VTime time.Duration
}

type cEventObs struct {
	Attempt int
	Ev      obsEvent
}

type cObs struct {
	Attempts     []cAttemptObs
	Retries      []cRetryObs
	Events       []cEventObs
	Ret          error
	RetVTime     time.Duration
	Panic        string
	GetBodyCalls int
	ReadErrs     map[int]error
	TErrs        map[int]error
	ValErrs      map[int]error
	CtxErrAtEnd  error
	OverScript   bool
	Runaway      bool
	// PoisonCalls: uses of configuration that does not belong to this connection
	PoisonCalls int
}

// seekBody is a body that can seek but is not one of the types http.NewRequest derives GetBody for.
type seekBody struct{ *strings.Reader }

func (seekBody) Close() error { return nil } // an io.ReadCloser, like *os.File: net/http keeps it as it is

type noGetReader struct{ r io.Reader }

func (n noGetReader) Read(p []byte) (int, error) { return n.r.Read(p) }

// runClient executes Connection.Connect against the script inside a synctest bubble.
func runClient(t *testing.T, sc *cScript) (obs *cObs) {
	obs = &cObs{ReadErrs: map[int]error{}, TErrs: map[int]error{}, ValErrs: map[int]error{}}
	defer func() {
		if r := recover(); r != nil {
			obs.Panic = fmt.Sprint(r)
		}
	}()
	synctest.Test(t, func(t *testing.T) {
		ctx, cancelFn := context.WithCancel(context.Background())
		if sc.Cause {
			c2, cc := context.WithCancelCause(context.Background())
			ctx, cancelFn = c2, func() { cc(errCancelCause) }
		}
		base := time.Now()
		cancel := cancelFn
		if sc.Deadline {
			// far enough for every scripted wait (capScript bounds them by 100 years), and before
			// the end of the bubble's clock
			dl := base.Add(150 * 365 * 24 * time.Hour)
			var c2 context.CancelFunc
			ctx, c2 = context.WithDeadline(ctx, dl)
			defer c2()
			cancel = func() {
				if d := time.Until(dl); d >= 0 {
					time.Sleep(d + 1)
				}
			}
		}
		defer cancelFn()
		var body io.Reader
		switch {
		case sc.Body == "nil":
		case sc.Body == "nobody" || sc.Body == "nobody_getbody":
			body = http.NoBody
		case sc.Body == "bytes":
			body = bytes.NewReader([]byte(cBodyText))
		case sc.Body == "closeonce":
			body = &closeOnceBody{r: strings.NewReader(cBodyText)}
		case sc.Body == "noget_seek":
			// a seekable body without GetBody of which the application has already consumed a prefix
			sb := seekBody{strings.NewReader(cBodyText)}
			sb.Seek(8, io.SeekStart)
			body = sb
		case sc.Body == "noget" || strings.HasPrefix(sc.Body, "getfail:"):
			body = noGetReader{strings.NewReader(cBodyText)}
		}
		req, err := http.NewRequestWithContext(ctx, http.MethodPost, "http://verif.invalid/events", body)
		if err != nil {
			panic(err)
		}
		if strings.HasPrefix(sc.Body, "getfail:") {
			var j int
			fmt.Sscanf(sc.Body, "getfail:%d", &j)
			req.GetBody = func() (io.ReadCloser, error) {
				obs.GetBodyCalls++
				if obs.GetBodyCalls >= j {
					return nil, errGetBody
				}
				return io.NopCloser(strings.NewReader(cBodyText)), nil
			}
		} else if sc.Body == "nobody_getbody" {
			// a request without a body that still has a GetBody (a template built for POST, cloned and
			// stripped of its body): there is nothing to re-obtain
			req.GetBody = func() (io.ReadCloser, error) {
				obs.GetBodyCalls++
				return io.NopCloser(strings.NewReader("body of the template this request was cloned from")), nil
			}
		} else if sc.Body == "closeonce" {
			// a body whose second Close fails (like *os.File), re-opened by GetBody
			req.GetBody = func() (io.ReadCloser, error) {
				obs.GetBodyCalls++
				return &closeOnceBody{r: strings.NewReader(cBodyText)}, nil
			}
		} else if req.GetBody != nil {
			orig := req.GetBody
			req.GetBody = func() (io.ReadCloser, error) { obs.GetBodyCalls++; return orig() }
		}
		attempt := -1
		var cbCancelled atomic.Bool
		rt := roundTripFunc(func(r *http.Request) (*http.Response, error) {
			attempt++
			a := attempt
			ao := cAttemptObs{VTime: time.Since(base), Accept: r.Header.Get("Accept")}
			if v, ok := r.Header["Last-Event-Id"]; ok {
				ao.HasHeader, ao.Header = true, append([]string(nil), v...)
			}
			if r.Header.Get("X-Next-Connection") != "" {
				obs.PoisonCalls++
			}
			if r.Body == nil {
				ao.BodyNil = true
			} else {
				b, err := io.ReadAll(r.Body)
				r.Body.Close()
				ao.Body = string(b)
				if err != nil {
					ao.BodyErr = err.Error()
				}
			}
			obs.Attempts = append(obs.Attempts, ao)
			if a >= len(sc.Attempts) {
				// the script is over: end the run
				obs.OverScript = true
				cancel()
				return nil, ctx.Err()
			}
			sp := sc.Attempts[a]
			var bodyClosed atomic.Bool
			var closeErr error
			if (a+len(sc.Attempts))%3 == 0 {
				closeErr = errBodyCloseFailed // a third of the bodies fail to close; nobody's result depends on it
			}
			if sp.Latency > 0 {
				time.Sleep(time.Duration(sp.Latency))
			}
			if sp.CancelInRT {
				cancel()
				if sp.RTErrAfterCancel {
					e := &transportErr{n: a, timeout: sc.TimeoutTErrs}
					obs.TErrs[a] = e
					return nil, e
				}
				return nil, ctx.Err()
			}
			if err := r.Context().Err(); err != nil {
				return nil, err
			}
			switch sp.Kind {
			case "terr":
				e := &transportErr{n: a, timeout: sc.TimeoutTErrs}
				obs.TErrs[a] = e
				return nil, e
			case "reject":
				h := http.Header{"Content-Type": []string{"text/event-stream"}}
				status := 200
				if !sc.CustomValidator {
					switch (a + len(sc.Attempts)) % 5 {
					case 0:
						status = 500
					case 1:
						h = http.Header{"Content-Type": []string{"text/plain"}}
					case 2:
						status = 204 // "no content": still not a valid event stream for the default validator
					case 3:
						status = 301
					default:
						h = http.Header{}
					}
				}
				return &http.Response{Status: http.StatusText(status), StatusCode: status, Proto: "HTTP/1.1", ProtoMajor: 1, ProtoMinor: 1,
					Header: h, Body: &blockBody{ch: make(chan struct{})}, Request: r, ContentLength: -1}, nil
			}
			if sp.Oversized {
				sp.Stream += "data: " + strings.Repeat("O", sc.BufMax+64) + "\n\ndata: never\n\n"
				obs.ReadErrs[a] = bufio.ErrTooLong
			}
			respReq := r
			if sp.ViaRedirect {
				respReq = r.Clone(r.Context())
				respReq.GetBody = nil
				respReq.Response = &http.Response{StatusCode: http.StatusPermanentRedirect, Header: http.Header{"Location": []string{"http://verif.invalid/moved"}}}
			}
			cr := &mon.ChunkReader{Data: sp.Stream, Cuts: sp.Cuts}
			var body io.Reader = cr
			if sp.StreamDelay > 0 {
				body = &delayedReader{r: cr, d: time.Duration(sp.StreamDelay)}
			}
			if sp.ByteReads {
				cr.Cuts = mon.EveryByte(len(sp.Stream))
			}
			if sp.End == "rerr" {
				e := &readErr{a}
				obs.ReadErrs[a] = e
				cr.EndErr = e
			}
			if sp.End == "rerr_eof" {
				e := &eofWrapErr{a}
				obs.ReadErrs[a] = e
				cr.EndErr = e
			}
			if sp.End == "rerr_dl" || sp.End == "rerr_cancel" {
				// what http.Client.Timeout, a transport's own read deadline or a proxy's context produce: an
				// error that wraps a context error although the request's context is alive
				var e error = &foreignCtxErr{a, context.DeadlineExceeded}
				if sp.End == "rerr_cancel" {
					e = &foreignCtxErr{a, context.Canceled}
				}
				obs.ReadErrs[a] = e
				cr.EndErr = e
			}
			if sp.CancelInCallback > 0 && sp.CancelAtOff < 0 {
				cr.OnRead = func(call, off int) error {
					if !cbCancelled.Load() {
						return nil
					}
					time.Sleep(1)
					if bodyClosed.Load() {
						return errBodyClosed
					}
					return ctx.Err()
				}
			}
			if sp.CancelAtOff >= 0 {
				x := min(sp.CancelAtOff, len(sp.Stream))
				cr.Cuts = mon.NormCuts(append(append([]int(nil), cr.Cuts...), x), len(sp.Stream))
				cr.OnRead = func(call, off int) error {
					if off >= x {
						cancel()
						// like a network body, this one notices a concurrent Close at once and the end of
						// the context a moment later: nobody may have closed it while its Read is pending
						time.Sleep(1)
						if bodyClosed.Load() {
							return errBodyClosed
						}
						return ctx.Err()
					}
					return nil
				}
			}
			return &http.Response{Status: "200 OK", StatusCode: 200, Proto: "HTTP/1.1", ProtoMajor: 1, ProtoMinor: 1,
				Header: http.Header{"Content-Type": []string{"text/event-stream; charset=utf-8"}}, Body: closeAware{body, &bodyClosed, closeErr}, Request: respReq, ContentLength: -1}, nil
		})
		cl := &sse.Client{
			HTTPClient: &http.Client{Transport: rt},
			Backoff: sse.Backoff{
				InitialInterval: time.Duration(sc.Backoff.InitialInterval), Multiplier: sc.Backoff.Multiplier, Jitter: sc.Backoff.Jitter,
				MaxInterval: time.Duration(sc.Backoff.MaxInterval), MaxElapsedTime: time.Duration(sc.Backoff.MaxElapsedTime), MaxRetries: sc.Backoff.MaxRetries,
			},
		}
		if sc.CustomValidator {
			cl.ResponseValidator = func(r *http.Response) error {
				a := attempt
				if a < len(sc.Attempts) && sc.Attempts[a].Kind == "reject" {
					var e error = errValidator
					switch (a + len(sc.Attempts)) % 3 {
					case 1:
						e = &tempErr{temporary: true}
					case 2:
						e = fmt.Errorf("validator: %w", &tempErr{timeout: true})
					}
					obs.ValErrs[a] = e
					return e
				}
				return nil
			}
		}
		retryIdx := 0
		var helpers sync.WaitGroup
		cl.OnRetry = func(err error, d time.Duration) {
			obs.Retries = append(obs.Retries, cRetryObs{Err: err, D: d, VTime: time.Since(base)})
			if len(obs.Retries) > len(sc.Attempts)+8 {
				// step bound: more retries than the script has attempts cannot be legitimate; end the run
				obs.Runaway = true
				cancelFn()
			}
			if sc.CancelInWait[attempt] {
				helpers.Add(1)
				go func() {
					defer helpers.Done()
					time.Sleep(d / 2)
					cancel()
				}()
			}
			retryIdx++
		}
		saved := *sse.DefaultClient
		defer func() { *sse.DefaultClient = saved }()
		poison := func(error, time.Duration) { obs.PoisonCalls++ }
		if sc.Route != "pkg" {
			// what DefaultClient says about limits is not this client's business: zero means "no limit"
			sse.DefaultClient.Backoff.MaxRetries = -1
			sse.DefaultClient.Backoff.MaxElapsedTime = 1
			sse.DefaultClient.Backoff.MaxInterval = 1
			sse.DefaultClient.OnRetry = poison
		}
		var conn *sse.Connection
		switch sc.Route {
		case "nilhttp":
			sse.DefaultClient.HTTPClient = cl.HTTPClient
			cl.HTTPClient = nil
			conn = cl.NewConnection(req)
		case "pkg":
			sse.DefaultClient.HTTPClient = cl.HTTPClient
			sse.DefaultClient.Backoff = cl.Backoff
			sse.DefaultClient.OnRetry = cl.OnRetry
			if cl.ResponseValidator != nil {
				sse.DefaultClient.ResponseValidator = cl.ResponseValidator
			}
			conn = sse.NewConnection(req)
		default:
			conn = cl.NewConnection(req)
			if sc.Poison {
				// NewConnection has configured the connection: what happens to the Client value and to the
				// request afterwards (say, to set up the next connection) is none of its business
				cl.Backoff = sse.Backoff{MaxRetries: -1, InitialInterval: 77 * time.Hour}
				cl.OnRetry = poison
				cl.ResponseValidator = func(*http.Response) error { obs.PoisonCalls++; return errors.New("validator of the next connection") }
				cl.HTTPClient = &http.Client{Transport: roundTripFunc(func(*http.Request) (*http.Response, error) {
					obs.PoisonCalls++
					return nil, errors.New("transport of the next connection")
				})}
				req.Header.Set("Last-Event-ID", "poison")
				req.Header.Set("X-Next-Connection", "1")
			}
		}
		if sc.BufMax > 0 {
			conn.Buffer(nil, sc.BufMax)
		}
		evAttempt, evInAttempt := -1, 0
		conn.SubscribeToAll(func(e sse.Event) {
			obs.Events = append(obs.Events, cEventObs{Attempt: attempt, Ev: obsEvent{strings.Clone(e.LastEventID), strings.Clone(e.Type), strings.Clone(e.Data)}})
			if attempt != evAttempt {
				evAttempt, evInAttempt = attempt, 0
			}
			evInAttempt++
			if attempt >= 0 && attempt < len(sc.Attempts) && sc.Attempts[attempt].CancelAtOff < 0 && sc.Attempts[attempt].CancelInCallback == evInAttempt {
				cbCancelled.Store(true)
				cancel()
			}
		})
		if sc.CancelBefore {
			cancel()
		}
		obs.Ret = conn.Connect()
		obs.RetVTime = time.Since(base)
		obs.CtxErrAtEnd = ctx.Err()
		helpers.Wait() // the harness's own goroutines must be gone before the bubble ends
	})
	return obs
}

type roundTripFunc func(*http.Request) (*http.Response, error)

func (f roundTripFunc) RoundTrip(r *http.Request) (*http.Response, error) { return f(r) }

// ---- model ----------------------------------------------------------------------------------

type cExpect struct {
	Attempts    int      // number of RoundTrips
	Headers     []string // expected Last-Event-ID per attempt ("\x00absent" for none)
	Events      []cEventObs
	Result      string // "ctx" | "validator" | "getbody" | "nogetbody" | "exhausted" | "ctx_or_exhausted"
	LastErrKind string // for exhausted: "terr" | "eof" | "ueof" | "rerr"
	LastAttempt int
	Findings    []jv
	// BaseIntervals[k] = allowed [lo, hi] for the base interval b used by retry k (before jitter)
	Retries int
}

type interval struct{ lo, hi float64 }

func (iv interval) mul(m float64) interval {
	return interval{iv.lo*m - 1 - iv.lo*m*1e-12, iv.hi*m + 1 + iv.hi*m*1e-12}
}

const absent = "\x00absent"

func effBackoff(b cBackoff) (init float64, mult float64, jitter float64) {
	init = float64(b.InitialInterval)
	if b.InitialInterval <= 0 {
		init = float64(500 * time.Millisecond)
	}
	mult = b.Multiplier
	if mult < 1 {
		mult = 1.5
	}
	jitter = b.Jitter
	if jitter != -1 && (jitter <= 0 || jitter >= 1) {
		jitter = 0.5
	}
	return
}

// streamOutcome interprets one attempt's stream as the client must.
type streamOutcome struct {
	// OptionalFrom > 0: the events from that index (0-based) on may or may not have been dispatched (a
	// callback ended the context while they were buffered); Ambiguous: the callback that ends the
	// context gets the event dispatched at the clean end of the stream — both the context and the lost
	// connection are reasons then, nothing is judged
	OptionalFrom int
	Ambiguous    bool
	Events       []obsEvent
	LastID  string
	EndKind string // "eof" | "ueof" | "rerr" | "cancel"
	Retries []ref.Retry
}

func interpretAttempt(a cAttempt, lastID string) streamOutcome {
	data := a.Stream
	cut := false
	if a.CancelAtOff >= 0 {
		data = a.Stream[:min(a.CancelAtOff, len(a.Stream))]
		cut = true
	}
	o := ref.Interpret(data, ref.Opts{Adapt: true, Conn: true, InitialID: lastID})
	so := streamOutcome{LastID: lastID, Retries: o.Retries}
	foreign := a.End == "rerr_dl" || a.End == "rerr_cancel"
	abnormal := cut || a.End == "rerr" || a.End == "rerr_eof" || foreign || a.Oversized
	cbCancel := false
	for _, e := range o.Events {
		if e.AtEOF && abnormal {
			continue
		}
		so.Events = append(so.Events, obsEvent{e.ID, e.Type, e.Data})
		so.LastID = e.ID
		if !cut && a.CancelInCallback == len(so.Events) {
			cbCancel = true
			so.OptionalFrom = len(so.Events)
			so.Ambiguous = e.AtEOF
		}
	}
	switch {
	case cut || cbCancel:
		so.EndKind = "cancel"
	case a.End == "rerr" || a.End == "rerr_eof" || foreign || a.Oversized:
		so.EndKind = "rerr"
	case o.UnexpectedEOF:
		so.EndKind = "ueof"
	default:
		so.EndKind = "eof"
	}
	// retries that arrive in a discarded tail still take effect (the field is processed when parsed)
	return so
}

// judgeClient runs the model along the observation and reports disagreements relevant to prop.
func judgeClient(sc *cScript, obs *cObs, prop string) (out []jv) {
	if obs.Panic != "" {
		return []jv{jvf([]string{"panic_or_deadlock"}, "client scenario panicked / deadlocked: %s", obs.Panic)}
	}
	if obs.PoisonCalls > 0 {
		out = append(out, jvf([]string{"foreign_configuration_used"}, "the connection used configuration that is not its own %d times (DefaultClient's limits/OnRetry for a Client that has its own, or Client fields / request headers changed after NewConnection)", obs.PoisonCalls))
	}
	if obs.Runaway {
		return []jv{jvf([]string{"connect_runaway"}, "Connect kept retrying (%d OnRetry calls for a script of %d attempts, %d requests sent) and had to be stopped by the step bound", len(obs.Retries), len(sc.Attempts), len(obs.Attempts))}
	}
	if sc.CancelBefore {
		wantCtx := error(context.Canceled)
		if sc.Deadline {
			wantCtx = context.DeadlineExceeded
		}
		// a request may still be sent (timer and context are both ready); if that RoundTrip fails with an
		// error of its own, both reasons are true, as in "ctx_or_terr" below
		var ce0 *sse.ConnectionError
		ownTErr := len(obs.Attempts) == 1 && len(sc.Attempts) > 0 && sc.Attempts[0].CancelInRT && sc.Attempts[0].RTErrAfterCancel &&
			errors.As(obs.Ret, &ce0) && obs.TErrs[0] != nil && errors.Is(obs.Ret, obs.TErrs[0])
		if obs.Ret != wantCtx && !ownTErr {
			out = append(out, jvf([]string{"ctx_error_not_returned"}, "context cancelled before Connect but it returned %v", obs.Ret))
		}
		if len(obs.Attempts) > 1 {
			out = append(out, jvf([]string{"attempt_count_wrong"}, "context cancelled before Connect but %d attempts were made", len(obs.Attempts)))
		}
		return out
	}
	init, mult, jitter := effBackoff(sc.Backoff)
	b := interval{init, init}
	k := 0 // consecutive retries so far
	var startVT time.Duration
	lastID := ""
	retry := 0
	var lastErrKind string
	var lastAttempt int
	bodyHas := sc.Body == "bytes" || sc.Body == "closeonce" || sc.Body == "noget" || sc.Body == "noget_seek" || strings.HasPrefix(sc.Body, "getfail:")
	wantBody := cBodyText
	if sc.Body == "noget_seek" {
		wantBody = cBodyText[8:]
	}
	failJ := 0
	if strings.HasPrefix(sc.Body, "getfail:") {
		fmt.Sscanf(sc.Body, "getfail:%d", &failJ)
	}
	evIdx := 0
	result := ""
	i := 0
	overflowed := false
	for ; ; i++ {
		// --- before attempt i: request reset (i>0)
		if i > 0 {
			// a seekable body may be given up on (ErrNoGetBody) or rewound to where it stood; if a
			// further request is sent, its body is judged below (the unread remainder, nothing else)
			if sc.Body == "noget" || sc.Body == "noget_seek" && i >= len(obs.Attempts) {
				result = "nogetbody"
				break
			}
			if failJ > 0 && i >= failJ {
				result = "getbody"
				break
			}
		}
		if i >= len(obs.Attempts) {
			// Connect made fewer attempts than the model expects at this point
			break
		}
		ao := obs.Attempts[i]
		// C10: header and body of this attempt
		if prop == "C10" || prop == "ALL" {
			want := absent
			if i > 0 && lastID != "" {
				want = lastID
			}
			got := absent
			if ao.HasHeader {
				got = strings.Join(ao.Header, "\x01")
			}
			if got != want {
				out = append(out, jvf([]string{"last_event_id_header_wrong"}, "attempt %d carried Last-Event-ID %q, want %q", i, got, want))
			}
			if bodyHas && (ao.Body != wantBody || ao.BodyErr != "") {
				out = append(out, jvf([]string{"request_body_not_fresh"}, "attempt %d saw request body %q (err %q), want the original %q", i, ao.Body, ao.BodyErr, wantBody))
			}
			if !bodyHas && ao.Body != "" {
				out = append(out, jvf([]string{"request_body_unexpected"}, "attempt %d saw a request body %q", i, ao.Body))
			}
		}
		if i >= len(sc.Attempts) {
			result = "ctx" // script over: the RoundTripper cancelled
			break
		}
		a := sc.Attempts[i]
		if a.CancelInRT {
			result = "ctx"
			if a.RTErrAfterCancel {
				result = "ctx_or_terr"
				lastAttempt = i
			}
			break
		}
		vt := ao.VTime + time.Duration(a.Latency)
		retryable := false
		switch a.Kind {
		case "terr":
			retryable, lastErrKind, lastAttempt = true, "terr", i
		case "reject":
			result = "validator"
			lastAttempt = i
		case "stream":
			// successful connection: reset
			b = interval{init, init}
			k = 0
			startVT = vt
			overflowed = false
			// time that passes on the live connection before the stream's first byte: the attempt ends that
			// much later, and a server retry value (parsed after it) restarts the elapsed-time clock there
			vt += time.Duration(a.StreamDelay)
			so := interpretAttempt(a, lastID)
			if so.Ambiguous {
				return nil
			}
			for ei, e := range so.Events {
				if so.OptionalFrom > 0 && ei >= so.OptionalFrom && (evIdx >= len(obs.Events) || obs.Events[evIdx].Attempt != i) {
					break // buffered events after the callback that ended the context: not dispatched
				}
				if prop == "C10" || prop == "C11" || prop == "ALL" {
					if evIdx >= len(obs.Events) || obs.Events[evIdx].Ev != e || obs.Events[evIdx].Attempt != i {
						got := "none"
						if evIdx < len(obs.Events) {
							got = fmt.Sprintf("%v (attempt %d)", obs.Events[evIdx].Ev, obs.Events[evIdx].Attempt)
						}
						out = append(out, jvf([]string{"events_differ"}, "attempt %d: expected event %v, observed %s", i, e, got))
					}
				}
				evIdx++
			}
			lastID = so.LastID
			for _, r := range so.Retries {
				if r.Ms > 0 {
					v := float64(r.Ms) * 1e6
					b = interval{v, v}
				} else {
					// retry: 0 — both readings accepted (InitialInterval or zero)
					b = interval{0, init}
				}
				k = 0
				startVT = vt
			}
			switch so.EndKind {
			case "cancel":
				result = "ctx"
			default:
				retryable, lastErrKind, lastAttempt = true, so.EndKind, i
			}
		}
		if result != "" {
			break
		}
		if !retryable {
			break
		}
		// --- retry decision
		mr := sc.Backoff.MaxRetries
		if mr < 0 || (mr > 0 && k == mr) {
			result = "exhausted"
			break
		}
		k++
		elapsed := float64(vt - startVT)
		// is there an observed retry?
		if retry >= len(obs.Retries) {
			// Connect stopped here. Legitimate only through MaxElapsedTime (or cancellation).
			result = "stopped_no_retry"
			if sc.Backoff.MaxElapsedTime > 0 {
				hiWait := b.hi
				if jitter != -1 {
					hiWait = b.hi*(1+jitter) + 1
				}
				if elapsed+hiWait > float64(sc.Backoff.MaxElapsedTime) {
					result = "exhausted"
				}
			}
			break
		}
		ro := obs.Retries[retry]
		retry++
		d := float64(ro.D)
		overflow := b.hi*(1+math.Abs(jitter)) > float64(math.MaxInt64)/2
		if overflow {
			// the interval is not representable as a time.Duration any more: the property cannot
			// prescribe a value; nothing is judged until the next reset
			overflowed = true
		}
		if (prop == "C12" || prop == "ALL") && !overflowed {
			{
				lo, hi := b.lo, b.hi
				if jitter != -1 {
					lo, hi = b.lo*(1-jitter)-1, b.hi*(1+jitter)+1
				}
				if d < lo || d > hi {
					tags := []string{"wait_out_of_range"}
					if sc.Backoff.Jitter == -1 {
						tags = append(tags, "jitter_minus_one_randomised")
					}
					out = append(out, jvf(tags, "retry %d (consecutive #%d): wait %v outside [%v, %v] (base interval [%v, %v], jitter %v)", retry, k, ro.D, time.Duration(lo), time.Duration(hi), time.Duration(b.lo), time.Duration(b.hi), jitter))
				}
			}
			if sc.Backoff.MaxElapsedTime > 0 && elapsed+d > float64(sc.Backoff.MaxElapsedTime) {
				out = append(out, jvf([]string{"max_elapsed_exceeded"}, "retry %d started although elapsed %v + wait %v exceeds MaxElapsedTime %v", retry, time.Duration(elapsed), ro.D, time.Duration(sc.Backoff.MaxElapsedTime)))
			}
			if ro.VTime != vt {
				out = append(out, jvf([]string{"onretry_time_wrong"}, "OnRetry for retry %d was called at virtual %v, the failed attempt ended at %v", retry, ro.VTime, vt))
			}
			// the next RoundTrip must happen exactly d later (unless the wait is cancelled)
			if !sc.CancelInWait[i] && i+1 < len(obs.Attempts) {
				if got := obs.Attempts[i+1].VTime - ro.VTime; got != ro.D {
					out = append(out, jvf([]string{"wait_differs_from_onretry"}, "OnRetry announced %v but the next attempt came %v later", ro.D, got))
				}
			}
		}
		// growth
		if sc.Backoff.MaxInterval > 0 {
			mx := float64(sc.Backoff.MaxInterval)
			nb := b.mul(mult)
			if nb.lo > mx {
				nb.lo = mx
			}
			if nb.hi > mx {
				nb.hi = mx
			}
			// the cap applies only when growing; an interval already above the cap stays as the statement says min(b*M, Max)
			b = nb
		} else {
			b = b.mul(mult)
		}
		if sc.CancelInWait[i] {
			result = "ctx"
			break
		}
	}
	// --- compare the end
	gotAttempts := len(obs.Attempts)
	wantAttempts := i + 1
	if result == "nogetbody" || result == "getbody" {
		wantAttempts = i
	}
	if prop == "C12" {
		// C12 only judges the schedule
		if result == "stopped_no_retry" {
			out = append(out, jvf([]string{"stopped_retrying_early"}, "Connect stopped after attempt %d although retries were still allowed (consecutive retries so far %d, MaxRetries %d)", i, k-1, sc.Backoff.MaxRetries))
		}
		if retry < len(obs.Retries) {
			out = append(out, jvf([]string{"too_many_retries"}, "OnRetry was called %d times, the model allows %d", len(obs.Retries), retry))
		}
		if result == "exhausted" && gotAttempts > wantAttempts {
			out = append(out, jvf([]string{"too_many_retries"}, "%d attempts were made, the retry limit allows %d", gotAttempts, wantAttempts))
		}
		return out
	}
	if prop == "C10" {
		switch result {
		case "nogetbody":
			if !errors.Is(obs.Ret, sse.ErrNoGetBody) {
				out = append(out, jvf([]string{"no_getbody_error_wrong"}, "body without GetBody: Connect returned %v, want an error wrapping ErrNoGetBody", obs.Ret))
			}
			if gotAttempts != wantAttempts {
				out = append(out, jvf([]string{"request_sent_with_consumed_body"}, "body without GetBody: %d requests were sent, want %d", gotAttempts, wantAttempts))
			}
		case "getbody":
			if !errors.Is(obs.Ret, errGetBody) {
				out = append(out, jvf([]string{"getbody_error_wrong"}, "failing GetBody: Connect returned %v, want GetBody's error", obs.Ret))
			}
			if gotAttempts != wantAttempts {
				out = append(out, jvf([]string{"request_sent_with_consumed_body"}, "failing GetBody: %d requests were sent, want %d", gotAttempts, wantAttempts))
			}
		}
		return out
	}
	// C11 / ALL: result and attempt count
	if obs.Ret == nil {
		out = append(out, jvf([]string{"connect_returned_nil"}, "Connect returned nil after %d attempts (model: %s)", gotAttempts, result))
		return out
	}
	var ce *sse.ConnectionError
	isCE := errors.As(obs.Ret, &ce)
	switch result {
	case "ctx_or_terr":
		// the context ended and the transport failed on its own account at the same time: both
		// reasons are true; the context's error or a *ConnectionError for the transport error
		wantCtx := error(context.Canceled)
		if sc.Deadline {
			wantCtx = context.DeadlineExceeded
		}
		if obs.Ret != wantCtx && !(isCE && errors.Is(obs.Ret, obs.TErrs[lastAttempt])) {
			out = append(out, jvf([]string{"bare_error_returned"}, "the context ended while RoundTrip failed with a transport error: Connect returned %v (%T), which is neither the context's error nor a *ConnectionError", obs.Ret, obs.Ret))
		}
	case "ctx":
		wantCtx := error(context.Canceled)
		if sc.Deadline {
			wantCtx = context.DeadlineExceeded
		}
		if obs.Ret != wantCtx {
			tags := []string{"ctx_error_not_returned"}
			if errors.Is(obs.Ret, sse.ErrUnexpectedEOF) {
				tags = append(tags, "cancel_reported_as_unexpected_eof")
			}
			out = append(out, jvf(tags, "the context was cancelled (attempt %d) but Connect returned %v", i, obs.Ret))
		}
	case "validator":
		want := obs.ValErrs[lastAttempt]
		if !sc.CustomValidator {
			want = nil
		}
		if !isCE || (want != nil && !errors.Is(obs.Ret, want)) {
			out = append(out, jvf([]string{"validator_error_wrong"}, "response rejected by the validator but Connect returned %v", obs.Ret))
		}
		if gotAttempts != wantAttempts {
			out = append(out, jvf([]string{"retried_after_permanent_error"}, "validator rejected attempt %d but %d attempts were made", i, gotAttempts))
		}
	case "nogetbody":
		if !isCE || !errors.Is(obs.Ret, sse.ErrNoGetBody) || gotAttempts != wantAttempts {
			out = append(out, jvf([]string{"no_getbody_error_wrong"}, "body without GetBody: Connect returned %v after %d attempts", obs.Ret, gotAttempts))
		}
	case "getbody":
		if !isCE || !errors.Is(obs.Ret, errGetBody) || gotAttempts != wantAttempts {
			out = append(out, jvf([]string{"getbody_error_wrong"}, "failing GetBody: Connect returned %v after %d attempts", obs.Ret, gotAttempts))
		}
	case "exhausted":
		okErr := false
		switch lastErrKind {
		case "terr":
			okErr = errors.Is(obs.Ret, obs.TErrs[lastAttempt])
		case "rerr":
			okErr = false
			for e := obs.Ret; e != nil; e = errors.Unwrap(e) {
				if e == obs.ReadErrs[lastAttempt] {
					okErr = true
				}
			}
		case "eof":
			okErr = errors.Is(obs.Ret, io.EOF) && !errors.Is(obs.Ret, sse.ErrUnexpectedEOF)
		case "ueof":
			okErr = errors.Is(obs.Ret, sse.ErrUnexpectedEOF)
		}
		if !isCE || !okErr {
			tags := []string{"last_error_wrong", "want_" + lastErrKind}
			if lastErrKind == "rerr" && errors.Is(obs.Ret, sse.ErrUnexpectedEOF) {
				tags = append(tags, "read_error_reported_as_unexpected_eof")
			}
			out = append(out, jvf(tags, "retries exhausted after attempt %d which ended with %s, but Connect returned %v", lastAttempt, lastErrKind, obs.Ret))
		}
		if gotAttempts != wantAttempts {
			out = append(out, jvf([]string{"attempt_count_wrong"}, "%d attempts were made, the model expects %d", gotAttempts, wantAttempts))
		}
	case "stopped_no_retry":
		out = append(out, jvf([]string{"stopped_retrying_early"}, "Connect returned %v after attempt %d although a retry was due", obs.Ret, i))
	default:
		if gotAttempts < wantAttempts {
			out = append(out, jvf([]string{"attempt_count_wrong"}, "only %d attempts were made", gotAttempts))
		}
	}
	if evIdx < len(obs.Events) && result != "" {
		out = append(out, jvf([]string{"events_differ"}, "%d more events observed than expected (first extra: %v)", len(obs.Events)-evIdx, obs.Events[evIdx].Ev))
	}
	return out
}
