package props

import (
	"context"
	"errors"
	"fmt"
	"strconv"
	"strings"
	"time"

	sse "github.com/tmaxmax/go-sse"

	"verifharness/mon"
)

// jv is one oracle finding over a Joe trace.
type jv struct {
	Tags []string
	Msg  string
}

func jvf(tags []string, format string, a ...any) jv {
	return jv{Tags: tags, Msg: fmt.Sprintf(format, a...)}
}

// putRec is one Put as seen by the recording replayer (Joe's serialisation order).
type putRec struct {
	VTime  time.Time
	Token  string
	Topics []string
	ID     string
	IDSet  bool
	Err    error
	Fault  string
	Pos    int // index in the log
}

type regRec struct {
	VTime      time.Time
	LogPos     int   // index of the replay entry in the log
	PutsBefore int   // number of puts logged before it
	Start, End int64 // clock stamps of the Replay call
	Err        error
	Fault      string
	Present    bool
}

type joeView struct {
	Puts        []putRec
	Regs        map[string]regRec
	PanicAt     int // log index of the first panic fault, -1 if none
	PubByTok    map[string]*jPubTrace
	PutByTok    map[string]*putRec
	firstSDCall int64 // call stamp of the earliest Shutdown (0 = none)
}

func buildView(tr *jTrace) *joeView {
	v := &joeView{Regs: map[string]regRec{}, PanicAt: -1, PubByTok: map[string]*jPubTrace{}, PutByTok: map[string]*putRec{}}
	for i, e := range tr.Log {
		if strings.HasPrefix(e.Fault, "panic") && v.PanicAt < 0 {
			v.PanicAt = i
		}
		switch e.Kind {
		case "put":
			v.Puts = append(v.Puts, putRec{VTime: e.VTime, Token: e.Token, Topics: e.Topics, ID: e.ID, IDSet: e.IDSet, Err: e.Err, Fault: e.Fault, Pos: i})
		case "replay":
			v.Regs[e.Sub] = regRec{VTime: e.VTime, LogPos: i, PutsBefore: len(v.Puts), Start: e.Start, End: e.End, Err: e.Err, Fault: e.Fault, Present: true}
		}
	}
	for i := range v.Puts {
		v.PutByTok[v.Puts[i].Token] = &v.Puts[i]
	}
	for _, p := range tr.Pubs {
		v.PubByTok[p.Msg.Token] = p
	}
	for _, sd := range tr.Shutdowns {
		if sd.CallStamp > 0 && (v.firstSDCall == 0 || sd.CallStamp < v.firstSDCall) {
			v.firstSDCall = sd.CallStamp
		}
	}
	return v
}

// clientFailure returns the index of the first failed call in a subscriber's log, or -1.
func clientFailure(calls []mon.Call) int {
	for i, c := range calls {
		if c.Err {
			return i
		}
	}
	return -1
}

// ---- generic checks shared by all Joe properties ---------------------------------------

// oracleDeadlock reports a bubble that could not finish.
func oracleDeadlock(tr *jTrace) []jv {
	if tr.Panic == "" {
		return nil
	}
	if strings.Contains(tr.Panic, "deadlock") {
		return []jv{jvf([]string{"synctest_deadlock"}, "the scenario cannot finish: %s (some call never returns or Joe's goroutine never exits)", tr.Panic)}
	}
	return []jv{jvf([]string{"scenario_panic"}, "scenario panicked: %s", tr.Panic)}
}

// oracleDelivery: C03/C04/C17 — per-subscriber Send sequences against the serialisation
// order witnessed at the Replayer boundary.
//
// checkReplay: also check the replay part against the model buffer (C04).
// requireAll: subscribers without failure/cancel must receive every matching put after their registration.
func oracleDelivery(sc *jScenario, tr *jTrace, checkReplay bool) (out []jv) {
	v := buildView(tr)
	if !tr.HasRec || v.PanicAt >= 0 {
		return oracleDeliveryWeak(sc, tr, v)
	}
	// (i) the put order respects real time
	for i := 0; i < len(v.Puts); i++ {
		for j := i + 1; j < len(v.Puts); j++ {
			a, b := v.PubByTok[v.Puts[i].Token], v.PubByTok[v.Puts[j].Token]
			if a == nil || b == nil {
				continue
			}
			// Puts[i] was serialised before Puts[j]; that contradicts real time if b returned before a was called.
			if b.Returned && b.RetStamp < a.CallStamp {
				out = append(out, jvf([]string{"serialisation_contradicts_real_time"}, "Publish(%s) returned before Publish(%s) was called but was serialised after it", b.Msg.Token, a.Msg.Token))
			}
		}
	}
	// every logged put corresponds to exactly one Publish call, and vice versa for accepted ones
	seen := map[string]int{}
	for _, p := range v.Puts {
		seen[p.Token]++
		if seen[p.Token] > 1 {
			out = append(out, jvf([]string{"message_put_twice"}, "message %s reached the replayer twice", p.Token))
		}
	}
	for _, p := range tr.Pubs {
		if !p.Returned {
			continue
		}
		_, inLog := v.PutByTok[p.Msg.Token]
		switch {
		case p.Ret == nil && !inLog:
			out = append(out, jvf([]string{"publish_nil_but_not_accepted"}, "Publish(%s) returned nil but the message never reached Joe's loop", p.Msg.Token))
		case (p.Ret == sse.ErrProviderClosed) && inLog:
			out = append(out, jvf([]string{"publish_closed_but_accepted"}, "Publish(%s) returned ErrProviderClosed but the message was accepted and fanned out", p.Msg.Token))
		}
	}
	for _, st := range tr.Subs {
		name := st.Spec.Name
		reg, ok := v.Regs[name]
		calls := st.Calls
		if !ok {
			if len(calls) > 0 {
				out = append(out, jvf([]string{"calls_without_registration"}, "subscriber %s was never accepted by the loop but received %d calls", name, len(calls)))
			}
			continue
		}
		var replayCalls, liveCalls []mon.Call
		for _, c := range calls {
			switch {
			case c.Start < reg.Start:
				out = append(out, jvf([]string{"call_before_registration"}, "subscriber %s: %s before its subscription was processed", name, c.Op))
			case c.Start < reg.End:
				replayCalls = append(replayCalls, c)
			default:
				liveCalls = append(liveCalls, c)
			}
		}
		registered := reg.Err == nil
		// --- replay part
		if checkReplay {
			want, judged := expectedReplay(sc, v, st, reg)
			got := mon.SendTokens(replayCalls)
			fi := clientFailure(replayCalls)
			if judged {
				if fi >= 0 {
					// the client failed during the replay: what was sent must be a prefix
					if len(got) > len(want) || !eqStrings(got, want[:len(got)]) {
						out = append(out, jvf([]string{"replay_wrong", "class_" + st.Spec.LastIDClass}, "subscriber %s (failing during replay): replayed %v, want a prefix of %v", name, got, want))
					}
				} else if !eqStrings(got, want) {
					tags := []string{"replay_wrong", "class_" + st.Spec.LastIDClass}
					out = append(out, jvf(tags, "subscriber %s presenting %q (%s) at position %d: replayed %v, want %v", name, st.Spec.LastID, st.Spec.LastIDClass, reg.PutsBefore, got, want))
				}
			}
		}
		// --- live part
		var matching []string
		for _, p := range v.Puts[reg.PutsBefore:] {
			if topicsMeet(p.Topics, st.Spec.Topics) {
				matching = append(matching, p.Token)
			}
		}
		got := mon.SendTokens(liveCalls)
		if !registered {
			if len(got) > 0 {
				out = append(out, jvf([]string{"delivery_to_unregistered"}, "subscriber %s (replay failed, not registered) received live %v", name, got))
			}
			continue
		}
		if len(got) > len(matching) || !eqStrings(got, matching[:len(got)]) {
			tags := []string{"live_sequence_wrong"}
			tags = append(tags, classifySeq(got, matching, st.Spec.Topics, v)...)
			out = append(out, jvf(tags, "subscriber %s (topics %v, registered after %d puts): live sends %v are not a prefix of the serialised matching messages %v", name, st.Spec.Topics, reg.PutsBefore, got, matching))
			continue
		}
		// how much must have been delivered
		fi := clientFailure(calls)
		cancel := st.CancelStamp.Load()
		required := 0
		switch {
		case fi >= 0:
			required = len(got) // the failure defines the cut; nothing may follow it (checked below)
			if fi != len(calls)-1 {
				out = append(out, jvf([]string{"calls_after_client_failure"}, "subscriber %s: %d calls after its own failure", name, len(calls)-1-fi))
			}
		case cancel > 0:
			for i, tok := range matching {
				if p := v.PubByTok[tok]; p != nil && p.Returned && p.RetStamp < cancel {
					required = i + 1
				}
			}
		default:
			required = len(matching)
		}
		if len(got) < required {
			tags := []string{"message_lost"}
			if cancel > 0 {
				tags = append(tags, "lost_before_cancel")
			}
			out = append(out, jvf(tags, "subscriber %s (topics %v): received %v but must have received the first %d of %v", name, st.Spec.Topics, got, required, matching))
		}
		// --- IDs: the same ID wherever the event is seen
		for _, c := range calls {
			if c.Op != "send" {
				continue
			}
			if p := v.PutByTok[c.Token]; p != nil && (c.ID != p.ID || c.IDSet != p.IDSet) {
				out = append(out, jvf([]string{"id_differs"}, "subscriber %s saw event %s with ID %q (set=%v) but Put returned ID %q (set=%v)", name, c.Token, c.ID, c.IDSet, p.ID, p.IDSet))
			}
		}
	}
	return out
}

func classifySeq(got, matching []string, subTopics []string, v *joeView) []string {
	var tags []string
	seen := map[string]bool{}
	for _, g := range got {
		if seen[g] {
			tags = append(tags, "duplicate_delivery")
			break
		}
		seen[g] = true
	}
	for _, g := range got {
		if p := v.PutByTok[g]; p != nil && !topicsMeet(p.Topics, subTopics) {
			tags = append(tags, "delivery_to_disjoint_topics")
			break
		}
	}
	return tags
}

// expectedReplay computes the replay part for a resuming subscriber from the puts that
// preceded its registration. judged=false when the property leaves the outcome open.
func expectedReplay(sc *jScenario, v *joeView, st *jSubTrace, reg regRec) (want []string, judged bool) {
	parts := strings.Split(sc.Replayer, ":")
	var buf []putRec
	before := []putRec{}
	for _, p := range v.Puts[:reg.PutsBefore] {
		if p.Err == nil && p.Fault == "" {
			before = append(before, p)
		}
	}
	switch parts[0] {
	case "finite":
		n, _ := strconv.Atoi(parts[1])
		if len(before) > n {
			buf = before[len(before)-n:]
		} else {
			buf = before
		}
	case "valid":
		ttl := 1000 * time.Hour
		if sc.ValidTTL > 0 {
			ttl = time.Duration(sc.ValidTTL)
		}
		for _, p := range before {
			if p.VTime.Add(ttl).After(reg.VTime) {
				buf = append(buf, p)
			} else if p.ID == st.Spec.LastID && st.Spec.LastIDSet {
				return nil, false // the presented ID has expired: unconstrained
			}
		}
	default:
		return nil, true // no real replayer: nothing is replayed
	}
	if !st.Spec.LastIDSet {
		return nil, true
	}
	idx := -1
	for i, p := range buf {
		if p.ID == st.Spec.LastID {
			idx = i
		}
	}
	if idx < 0 {
		// evicted or never issued
		if sc.autoIDs() {
			if n, err := strconv.ParseUint(st.Spec.LastID, 10, 64); err == nil {
				issued := uint64(len(before))
				if n < issued {
					return nil, false // evicted automatic ID (or look-alike): unconstrained
				}
			}
		}
		return nil, true
	}
	for _, p := range buf[idx+1:] {
		if topicsMeet(p.Topics, st.Spec.Topics) {
			want = append(want, p.Token)
		}
	}
	return want, true
}

// oracleDeliveryWeak is used when no serialisation witness is available (no replayer, or the
// replayer was disabled by a panic): consistency rules plus completeness through real time.
func oracleDeliveryWeak(sc *jScenario, tr *jTrace, v *joeView) (out []jv) {
	perSub := map[string]map[string]int{}
	for _, st := range tr.Subs {
		name := st.Spec.Name
		toks := mon.SendTokens(st.Calls)
		idx := map[string]int{}
		for i, tk := range toks {
			if _, dup := idx[tk]; dup {
				out = append(out, jvf([]string{"live_sequence_wrong", "duplicate_delivery"}, "subscriber %s received %s twice: %v", name, tk, toks))
			}
			idx[tk] = i
			p := v.PubByTok[tk]
			if p == nil {
				out = append(out, jvf([]string{"unknown_message"}, "subscriber %s received unknown message %s", name, tk))
				continue
			}
			if !topicsMeet(p.Msg.Topics, st.Spec.Topics) {
				out = append(out, jvf([]string{"live_sequence_wrong", "delivery_to_disjoint_topics"}, "subscriber %s (topics %v) received %s published to %v", name, st.Spec.Topics, tk, p.Msg.Topics))
			}
		}
		perSub[name] = idx
		// real-time order inside one subscriber
		for i := 0; i < len(toks); i++ {
			for j := i + 1; j < len(toks); j++ {
				a, b := v.PubByTok[toks[i]], v.PubByTok[toks[j]]
				if a != nil && b != nil && b.Returned && b.RetStamp < a.CallStamp {
					out = append(out, jvf([]string{"live_sequence_wrong", "order_contradicts_real_time"}, "subscriber %s received %s before %s although Publish(%s) returned before Publish(%s) was called", name, toks[i], toks[j], toks[j], toks[i]))
				}
			}
		}
		fi := clientFailure(st.Calls)
		if fi >= 0 && fi != len(st.Calls)-1 {
			out = append(out, jvf([]string{"calls_after_client_failure"}, "subscriber %s: calls after its own failure", name))
		}
	}
	// agreement between subscribers
	for i := 0; i < len(tr.Subs); i++ {
		for j := i + 1; j < len(tr.Subs); j++ {
			a, b := perSub[tr.Subs[i].Spec.Name], perSub[tr.Subs[j].Spec.Name]
			var common []string
			for tk := range a {
				if _, ok := b[tk]; ok {
					common = append(common, tk)
				}
			}
			for x := 0; x < len(common); x++ {
				for y := x + 1; y < len(common); y++ {
					if (a[common[x]] < a[common[y]]) != (b[common[x]] < b[common[y]]) {
						out = append(out, jvf([]string{"live_sequence_wrong", "subscribers_disagree_on_order"}, "subscribers %s and %s saw %s and %s in different orders", tr.Subs[i].Spec.Name, tr.Subs[j].Spec.Name, common[x], common[y]))
					}
				}
			}
		}
	}
	// completeness: message m must reach s if s was witnessed registered before Publish(m) was
	// called and nothing removed s before Publish(m) returned.
	for _, st := range tr.Subs {
		name := st.Spec.Name
		fi := clientFailure(st.Calls)
		cancel := st.CancelStamp.Load()
		for _, p := range tr.Pubs {
			if !p.Returned || p.Ret != nil && !isInjected(p.Ret) {
				continue
			}
			if !topicsMeet(p.Msg.Topics, st.Spec.Topics) {
				continue
			}
			// witness of registration before the call
			wit := false
			if reg, ok := v.Regs[name]; ok && reg.End < p.CallStamp && (reg.Err == nil) {
				wit = true
			}
			for _, c := range st.Calls {
				if c.Op == "send" && c.End < p.CallStamp && !c.Err {
					wit = true
				}
			}
			if p.Msg.Token == "probe" && st.CallStamp > 0 && st.CallStamp < p.CallStamp && (v.firstSDCall == 0 || v.firstSDCall > p.RetStamp) {
				// the probe is published after a long quiet period: every Subscribe called before it was accepted
				wit = true
				if reg, ok := v.Regs[name]; ok && reg.Err != nil {
					wit = false
				}
			}
			if !wit {
				continue
			}
			if fi >= 0 && st.Calls[fi].Start < p.RetStamp {
				continue
			}
			if cancel > 0 && cancel < p.RetStamp {
				continue
			}
			if v.firstSDCall > 0 && v.firstSDCall < p.RetStamp {
				// a Publish racing Shutdown: if it returned nil it was accepted and must be fanned out
				if p.Ret != nil {
					continue
				}
			}
			if st.Returned && st.RetStamp < p.RetStamp {
				continue
			}
			if _, got := perSub[name][p.Msg.Token]; !got {
				out = append(out, jvf([]string{"message_lost"}, "subscriber %s (topics %v) was registered before Publish(%s) was called and not removed before it returned, but never received it", name, st.Spec.Topics, p.Msg.Token))
			}
		}
	}
	return out
}

func isInjected(err error) bool {
	var ie *mon.InjectedError
	return errors.As(err, &ie)
}

// oracleFlush: every successful Send has a Flush after it whenever Joe is idle, and at the end.
func oracleFlush(tr *jTrace) (out []jv) {
	for _, ic := range tr.Idle {
		if ic.Idle && len(ic.Missing) > 0 {
			out = append(out, jvf([]string{"send_without_flush_at_idle"}, "Joe is idle but the last successful Send to %v was not followed by a Flush", ic.Missing))
		}
	}
	for _, st := range tr.Subs {
		last := -1
		for i, c := range st.Calls {
			if c.Op == "send" {
				last = i
			}
		}
		if last >= 0 && !st.Calls[last].Err {
			ok := false
			for _, c := range st.Calls[last+1:] {
				if c.Op == "flush" {
					ok = true
				}
			}
			if !ok {
				out = append(out, jvf([]string{"send_without_flush_at_end"}, "subscriber %s: last successful Send never followed by a Flush", st.Spec.Name))
			}
		}
	}
	return out
}

// oracleSubscriberSafety: C06 — nothing touches a MessageWriter after its Subscribe returned,
// never two calls at once, and Subscribe's return value.
func oracleSubscriberSafety(sc *jScenario, tr *jTrace) (out []jv) {
	v := buildView(tr)
	for _, st := range tr.Subs {
		name := st.Spec.Name
		if st.Client.Overlaps > 0 {
			out = append(out, jvf([]string{"concurrent_calls_on_client"}, "subscriber %s: %d overlapping Send/Flush calls", name, st.Client.Overlaps))
		}
		if !st.Returned {
			continue
		}
		for _, c := range st.Calls {
			if c.Start > st.RetStamp {
				out = append(out, jvf([]string{"call_after_subscribe_returned"}, "subscriber %s: %s(%s) started after its Subscribe had returned", name, c.Op, c.Token))
				break
			}
		}
		// return value
		fi := clientFailure(st.Calls)
		reg, hasReg := v.Regs[name]
		var want error
		switch {
		case fi >= 0:
			want = st.FailErr
		case hasReg && reg.Err != nil && reg.Fault == "err":
			want = reg.Err
		default:
			want = nil
		}
		switch {
		case want != nil:
			if st.Ret != want {
				tags := []string{"subscribe_return_wrong", "own_error_lost"}
				if st.CancelStamp.Load() > 0 {
					tags = append(tags, "failure_and_cancel")
				}
				out = append(out, jvf(tags, "subscriber %s: its own %s failed (%v) but Subscribe returned %v", name, failedOp(st.Calls, fi, reg), want, st.Ret))
			}
		default:
			logReliable := tr.HasRec && v.PanicAt < 0
			closedOK := (st.Ret == sse.ErrProviderClosed) && v.firstSDCall > 0 && v.firstSDCall < st.RetStamp && (!hasReg || !logReliable)
			if st.Ret != nil && !closedOK {
				out = append(out, jvf([]string{"subscribe_return_wrong"}, "subscriber %s ended through cancellation/shutdown but Subscribe returned %v", name, st.Ret))
			}
		}
	}
	return out
}

func failedOp(calls []mon.Call, fi int, reg regRec) string {
	if fi >= 0 {
		return calls[fi].Op
	}
	return "replay"
}

// oracleReturns: C07 — return values of Subscribe / Publish / Shutdown against the interval rules.
func oracleReturns(sc *jScenario, tr *jTrace) (out []jv) {
	v := buildView(tr)
	// Shutdowns
	winners := 0
	var nilRet int64
	for _, sd := range tr.Shutdowns {
		if !sd.Returned {
			continue
		}
		switch {
		case sd.Ret == nil:
			winners++
			if nilRet == 0 || sd.RetStamp < nilRet {
				nilRet = sd.RetStamp
			}
		case (sd.Ret == sse.ErrProviderClosed):
		case (sd.Ret == context.Canceled) && (sd.Spec.Ctx == "cancelled" || sd.Spec.Ctx == "cancelled_cause"):
			winners++
		case (sd.Ret == context.DeadlineExceeded) && (strings.HasPrefix(sd.Spec.Ctx, "deadline:") || strings.HasPrefix(sd.Spec.Ctx, "deadline_cause:")):
			winners++
			if sd.VRet < sd.VDeadline {
				out = append(out, jvf([]string{"shutdown_return_wrong"}, "Shutdown returned DeadlineExceeded before its deadline"))
			}
		default:
			out = append(out, jvf([]string{"shutdown_return_wrong"}, "Shutdown(ctx=%s) returned %v", sd.Spec.Ctx, sd.Ret))
		}
	}
	if len(tr.Shutdowns) > 0 && winners != 1 {
		rets := []string{}
		for _, sd := range tr.Shutdowns {
			rets = append(rets, fmt.Sprint(sd.Ret))
		}
		out = append(out, jvf([]string{"shutdown_winner_count"}, "%d Shutdown calls did not return ErrProviderClosed (want exactly 1): %v", winners, rets))
	}
	// after a Shutdown returned nil nothing may be called on any subscriber
	if nilRet > 0 {
		for _, st := range tr.Subs {
			for _, c := range st.Calls {
				if c.Start > nilRet {
					out = append(out, jvf([]string{"activity_after_shutdown_returned"}, "subscriber %s: %s started after Shutdown had returned nil", st.Spec.Name, c.Op))
					break
				}
			}
		}
	}
	// "Shutdown returns nil once all subscribers are released": a subscriber that is registered and
	// ends only through the shutdown is parked in Subscribe and woken when Joe releases it; it must
	// not return later, in virtual time, than the Shutdown call that returned nil.
	// Judged only under schedules that cannot delay the Subscribe goroutine itself at one of its own
	// yield points (no random / n-th-invocation delays, no fixed delay at a "sub." point).
	subUndelayed := (sc.Hook.Kind == "none" || sc.Hook.Kind == "fixed") && len(sc.Hook.Nth) == 0
	for pt := range sc.Hook.Fixed {
		if strings.HasPrefix(pt, "sub.") {
			subUndelayed = false
		}
	}
	for _, sd := range tr.Shutdowns {
		if !sd.Returned || sd.Ret != nil || !subUndelayed {
			continue
		}
		for _, st := range tr.Subs {
			reg, hasReg := v.Regs[st.Spec.Name]
			if !st.Returned || st.Ret != nil || st.CancelStamp.Load() != 0 || clientFailure(st.Calls) >= 0 || !hasReg || reg.Err != nil {
				continue
			}
			if st.CallStamp > sd.CallStamp {
				continue
			}
			if st.VRet > sd.VRet {
				out = append(out, jvf([]string{"shutdown_returned_before_subscribers_released"}, "Shutdown returned nil at virtual %v but subscriber %s (registered, not cancelled) was only released at %v", sd.VRet, st.Spec.Name, st.VRet))
			}
		}
	}
	closedAllowed := func(ret int64) bool { return v.firstSDCall > 0 && v.firstSDCall < ret }
	closedRequired := func(call int64) bool { return nilRet > 0 && call > nilRet }
	for _, st := range tr.Subs {
		if !st.Returned {
			continue
		}
		isClosed := (st.Ret == sse.ErrProviderClosed)
		if isClosed && !closedAllowed(st.RetStamp) {
			out = append(out, jvf([]string{"closed_without_shutdown"}, "Subscribe(%s) returned ErrProviderClosed although no Shutdown had been called", st.Spec.Name))
		}
		if closedRequired(st.CallStamp) && !isClosed {
			out = append(out, jvf([]string{"closed_required"}, "Subscribe(%s) was called after Shutdown had returned nil but returned %v", st.Spec.Name, st.Ret))
		}
		if !isClosed && st.Ret != nil && st.Ret != st.FailErr && !isInjected(st.Ret) {
			out = append(out, jvf([]string{"subscribe_return_wrong"}, "Subscribe(%s) returned %v", st.Spec.Name, st.Ret))
		}
	}
	for _, p := range tr.Pubs {
		if !p.Returned {
			continue
		}
		isClosed := (p.Ret == sse.ErrProviderClosed)
		if isClosed && !closedAllowed(p.RetStamp) {
			out = append(out, jvf([]string{"closed_without_shutdown"}, "Publish(%s) returned ErrProviderClosed although no Shutdown had been called", p.Msg.Token))
		}
		if closedRequired(p.CallStamp) && !isClosed && len(p.Msg.Topics) > 0 {
			out = append(out, jvf([]string{"closed_required"}, "Publish(%s) was called after Shutdown had returned nil but returned %v", p.Msg.Token, p.Ret))
		}
		if len(p.Msg.Topics) == 0 {
			if !(p.Ret == sse.ErrNoTopic) {
				out = append(out, jvf([]string{"publish_return_wrong"}, "Publish without topics returned %v", p.Ret))
			}
			continue
		}
		if !isClosed && p.Ret != nil && !isInjected(p.Ret) {
			out = append(out, jvf([]string{"publish_return_wrong"}, "Publish(%s) returned %v", p.Msg.Token, p.Ret))
		}
	}
	return out
}

// oraclePublishReturns: C03(iv)/C17 — Publish returns nil for accepted messages, the Put error
// for the publish whose Put failed, and nothing else.
func oraclePublishReturns(tr *jTrace) (out []jv) {
	v := buildView(tr)
	// a copy the replayer handed back together with an error is not what was published
	for _, st := range tr.Subs {
		for _, c := range st.Calls {
			if c.Op == "send" && strings.HasPrefix(c.ID, "ghost-") {
				out = append(out, jvf([]string{"replayer_copy_delivered_despite_put_error"}, "subscriber %s was sent the replayer's copy (ID %q) of a message whose Put returned an error; the published message is what is delivered", st.Spec.Name, c.ID))
				break
			}
		}
	}
	for _, p := range tr.Pubs {
		if !p.Returned {
			continue
		}
		put := v.PutByTok[p.Msg.Token]
		switch {
		case put != nil && put.Fault == "err":
			if p.Ret != put.Err {
				out = append(out, jvf([]string{"put_error_not_returned"}, "Put(%s) failed with %v but Publish returned %v", p.Msg.Token, put.Err, p.Ret))
			}
		case put != nil && put.Err != nil && put.Fault == "":
			if p.Ret != put.Err {
				out = append(out, jvf([]string{"put_error_not_returned"}, "the replayer rejected %s with %v but Publish returned %v", p.Msg.Token, put.Err, p.Ret))
			}
		case put != nil:
			if p.Ret != nil {
				out = append(out, jvf([]string{"publish_return_wrong"}, "Publish(%s) was accepted (Put ok or panicked) but returned %v", p.Msg.Token, p.Ret))
			}
		default:
			if p.Ret != nil && !(p.Ret == sse.ErrProviderClosed) && !(p.Ret == sse.ErrNoTopic) {
				out = append(out, jvf([]string{"publish_return_wrong"}, "Publish(%s) returned %v", p.Msg.Token, p.Ret))
			}
			if (p.Ret == sse.ErrProviderClosed) && (v.firstSDCall == 0 || v.firstSDCall > p.RetStamp) {
				out = append(out, jvf([]string{"closed_without_shutdown"}, "Publish(%s) returned ErrProviderClosed before any Shutdown was called", p.Msg.Token))
			}
		}
	}
	return out
}

// oracleReplayerDisabled: C17 — after a replayer panic the replayer is never used again.
func oracleReplayerDisabled(tr *jTrace) (out []jv) {
	v := buildView(tr)
	if v.PanicAt >= 0 && v.PanicAt != len(tr.Log)-1 {
		out = append(out, jvf([]string{"replayer_used_after_panic"}, "the replayer panicked at call %d but received %d later calls", v.PanicAt, len(tr.Log)-1-v.PanicAt))
	}
	return out
}
