package props

import (
	"errors"
	"fmt"
	"math/rand/v2"
	"sort"
	"strconv"
	"strings"
	"testing"
	"time"

	sse "github.com/tmaxmax/go-sse"

	"verifharness/fw"
	"verifharness/mon"
)

// ---- shared sequential model of a replayer ------------------------------------------

type rpEntry struct {
	ID      string
	Token   string
	Topics  []string
	PutTime time.Time
}

type rpModel struct {
	Auto    bool
	NextID  uint64
	Entries []rpEntry // all successfully put, oldest first (never trimmed; windows computed on demand)
	Cap     int       // finite: capacity; valid: 0
	TTL     time.Duration
}

func topicsMeet(a, b []string) bool {
	for _, x := range a {
		for _, y := range b {
			if x == y {
				return true
			}
		}
	}
	return false
}

// window returns the indices [lo, len) of the entries currently replayable.
func (m *rpModel) windowFinite() int {
	lo := len(m.Entries) - m.Cap
	if lo < 0 {
		lo = 0
	}
	return lo
}

// firstUnexpired returns the index of the oldest entry with putTime+TTL > now.
func (m *rpModel) firstUnexpired(now time.Time) int {
	for i, e := range m.Entries {
		if e.PutTime.Add(m.TTL).After(now) {
			return i
		}
	}
	return len(m.Entries)
}

func (m *rpModel) find(id string) int {
	for i := len(m.Entries) - 1; i >= 0; i-- {
		if m.Entries[i].ID == id {
			return i
		}
	}
	return -1
}

var errInjectedSend = errors.New("injected send failure")
var errInjectedFlush = errors.New("injected flush failure")

type rpReplayObs struct {
	Tokens     []string
	IDs        []string
	Calls      []mon.Call
	Err        error
	FlushAfter bool // a flush happened after the last send
	Flushes    int
}

func rpDoReplay(rp sse.Replayer, id sse.EventID, topics []string, failSend, failFlush int) rpReplayObs {
	cl := &mon.RecClient{FailSendAt: failSend, FailFlushAt: failFlush}
	if failSend > 0 {
		cl.Err = errInjectedSend
	} else if failFlush > 0 {
		cl.Err = errInjectedFlush
	}
	err := rp.Replay(sse.Subscription{Client: cl, LastEventID: id, Topics: topics})
	o := rpReplayObs{Err: err, Calls: cl.Calls()}
	lastSend := -1
	for i, c := range o.Calls {
		if c.Op == "send" {
			o.Tokens = append(o.Tokens, c.Token)
			o.IDs = append(o.IDs, c.ID)
			lastSend = i
		} else {
			o.Flushes++
			if i > lastSend {
				o.FlushAfter = lastSend >= 0
			}
		}
	}
	if lastSend >= 0 {
		o.FlushAfter = false
		for i := lastSend + 1; i < len(o.Calls); i++ {
			if o.Calls[i].Op == "flush" {
				o.FlushAfter = true
			}
		}
	}
	return o
}

func mkMsg(token string, id string, hasID bool) *sse.Message {
	m := &sse.Message{}
	mon.ShapeMsg(m, token)
	if hasID {
		m.ID = sse.ID(id)
	}
	return m
}

var topicSets = [][]string{{"a"}, {"b"}, {"a", "b"}, {sse.DefaultTopic}, {"a", sse.DefaultTopic}, {"c"}}

// topicSetsX: also lists with a repeated topic and lists of five and more topics
var topicSetsX = append(append([][]string{}, topicSets...), []string{"a", "a"}, []string{"b", "a", "a"}, []string{"c", "c", "b"},
	[]string{"a", "b", "c", "d", "e"}, []string{"d", "e", "f", "g", "h"}, []string{"h", "g", "f", "e", "d", "c"}, []string{"d"}, []string{"f", "g"})

func eqStrings(a, b []string) bool {
	if len(a) != len(b) {
		return false
	}
	for i := range a {
		if a[i] != b[i] {
			return false
		}
	}
	return true
}

// ---- C08 ---------------------------------------------------------------------------------

type c08Hist struct {
	Cap  int      `json:"capacity"`
	Auto bool     `json:"auto_ids"`
	Ops  []string `json:"ops"`
}

// topicShare hands out, per replayer under test, one slice object per topic list: the very same
// slice is passed to every Put with that list (as an application with a fixed set of topic lists
// does), while the model keeps the master lists, which are never passed to go-sse.
type topicShare map[string][]string

func (ts topicShare) of(master []string) []string {
	if master == nil {
		return nil
	}
	if len(ts) == 0 {
		// the longest lists first, so that a list that is a prefix of another one becomes a shorter
		// view of the same array (as an application slicing one list of topics would pass it)
		all := append([][]string{}, topicSetsX...)
		sort.SliceStable(all, func(i, j int) bool { return len(all[i]) > len(all[j]) })
		ts["\x00seeded"] = []string{}
		for _, m := range all {
			ts.of(m)
		}
	}
	k := strconv.Itoa(len(master)) + ":" + strings.Join(master, "\x00")
	if sh, ok := ts[k]; ok {
		return sh
	}
	keys := make([]string, 0, len(ts))
	for kk := range ts {
		keys = append(keys, kk)
	}
	sort.Strings(keys)
	for _, kk := range keys {
		ex := ts[kk]
		if len(ex) > len(master) && eqStrings(ex[:len(master)], master) {
			ts[k] = ex[:len(master)]
			return ts[k]
		}
	}
	sh := append(make([]string, 0, len(master)), master...)
	ts[k] = sh
	return sh
}

type c08State struct {
	lastMsg    *sse.Message
	lastTok    string
	lastTopics []string
	share      topicShare
	r          *fw.Run
	key        string
	rp         *sse.FiniteReplayer
	m          *rpModel
	hist       *c08Hist
	ntok       int
	shape      map[string]struct{}
}

func (s *c08State) viol(tags []string, format string, a ...any) {
	s.r.Violation(s.key, tags, map[string]any{"history": s.hist, "detail": fmt.Sprintf(format, a...)}, "C08: "+format, a...)
}

func (s *c08State) put(topics []string, mode string) {
	s.ntok++
	tok := "m" + strconv.Itoa(s.ntok)
	var msg *sse.Message
	wantErr := false
	id := ""
	switch mode {
	case "valid":
		if s.m.Auto {
			msg = mkMsg(tok, "", false)
			id = strconv.FormatUint(s.m.NextID, 10)
		} else {
			id = "id-" + tok
			msg = mkMsg(tok, id, true)
		}
	case "empty_id":
		// manual mode only: an ID that is set but empty is a legal ID; an unset one is not an ID at all
		id = ""
		msg = mkMsg(tok, "", true)
	case "wrong_id_mode":
		if s.m.Auto {
			// an ID of the application's own: arbitrary, or looking like the IDs the replayer hands out
			own := []string{"own-" + tok, strconv.FormatUint(s.m.NextID, 10), strconv.FormatUint(s.m.NextID+5, 10), "0"}[s.ntok%4]
			msg = mkMsg(tok, own, true)
		} else {
			msg = mkMsg(tok, "", false)
		}
		wantErr = true
	case "no_topics":
		if s.m.Auto {
			msg = mkMsg(tok, "", false)
		} else {
			msg = mkMsg(tok, "id-"+tok, true)
		}
		topics = nil
		wantErr = true
	case "empty_topics":
		if s.m.Auto {
			msg = mkMsg(tok, "", false)
		} else {
			msg = mkMsg(tok, "id-"+tok, true)
		}
		topics = []string{}
		wantErr = true
	}
	before := msg.String()
	beforeSet := msg.ID.IsSet()
	s.hist.Ops = append(s.hist.Ops, fmt.Sprintf("Put(%s,%s,topics=%v)", tok, mode, topics))
	if s.share == nil {
		s.share = topicShare{}
	}
	got, err := s.rp.Put(msg, s.share.of(topics))
	s.r.Count("puts", 1)
	if msg.String() != before || msg.ID.IsSet() != beforeSet {
		s.viol([]string{"put_mutates_argument"}, "Put modified the message it was given (%q -> %q)", before, msg.String())
	}
	if wantErr {
		s.r.Count("puts_rejected", 1)
		if err == nil {
			s.viol([]string{"invalid_put_accepted", "put_" + mode}, "Put(%s) returned no error", mode)
			// keep the model in sync with what the code did so that later reports are not noise
			return
		}
		if (mode == "no_topics" || mode == "empty_topics") && !errors.Is(err, sse.ErrNoTopic) {
			s.viol([]string{"no_topic_error_wrong"}, "Put without topics returned %v, want ErrNoTopic", err)
		}
		if got != nil {
			s.viol([]string{"rejected_put_returns_message"}, "rejected Put returned a message")
		}
		return
	}
	if err != nil || got == nil {
		s.viol([]string{"valid_put_rejected"}, "valid Put returned (%v, %v)", got, err)
		return
	}
	if !got.ID.IsSet() || got.ID.String() != id {
		s.viol([]string{"put_id_wrong"}, "Put returned message with ID %q (set=%v), want %q", got.ID.String(), got.ID.IsSet(), id)
	}
	if mon.Token(got) != tok {
		s.viol([]string{"put_returns_other_message"}, "Put returned a message with payload %q, want %q", mon.Token(got), tok)
	}
	if s.m.Auto {
		s.m.NextID++
	}
	s.m.Entries = append(s.m.Entries, rpEntry{ID: got.ID.String(), Token: tok, Topics: topics})
	s.lastMsg, s.lastTok, s.lastTopics = msg, tok, topics
	if s.m.Cap <= 64 {
		sh := mon.ProbeShape(s.rp)
		if sh.OK {
			s.shape[fmt.Sprintf("%d/%d/%d/%d", sh.Head, sh.Tail, sh.Count, sh.Cap)] = struct{}{}
		}
	}
}

// replay presents id (class is only descriptive) and checks the outcome.
// putAgain puts the very message object of the previous valid Put once more (manual IDs: a prepared
// message published twice is two buffered events that carry the same ID).
func (s *c08State) putAgain() {
	if s.m.Auto || s.lastMsg == nil {
		return
	}
	s.hist.Ops = append(s.hist.Ops, fmt.Sprintf("Put(the same *Message as before: %s, topics=%v)", s.lastTok, s.lastTopics))
	got, err := s.rp.Put(s.lastMsg, s.share.of(s.lastTopics))
	s.r.Count("puts", 1)
	s.r.Count("puts_of_the_same_object", 1)
	if err != nil || got == nil {
		s.viol([]string{"valid_put_rejected"}, "putting the same message object a second time returned (%v, %v)", got, err)
		return
	}
	s.m.Entries = append(s.m.Entries, rpEntry{ID: got.ID.String(), Token: s.lastTok, Topics: s.lastTopics})
}

func (s *c08State) replay(class string, id sse.EventID, subTopics []string, failSend int, failFlush int) {
	if id.IsSet() {
		// which of several events sharing one ID a presented ID means is not defined: not presented
		n := 0
		for _, e := range s.m.Entries {
			if e.ID == id.String() {
				n++
			}
		}
		if n > 1 {
			return
		}
	}
	lo := s.m.windowFinite()
	idx := -1
	if id.IsSet() {
		idx = s.m.find(id.String())
	}
	s.hist.Ops = append(s.hist.Ops, fmt.Sprintf("Replay(%s id=%q set=%v topics=%v failSend=%d failFlush=%d)", class, id.String(), id.IsSet(), subTopics, failSend, failFlush))
	o := rpDoReplay(s.rp, id, subTopics, failSend, failFlush)
	s.r.Count("replays", 1)
	s.r.Count("replay_class_"+class, 1)
	s.r.Count("sends_observed", int64(len(o.Tokens)))
	defer func() { s.hist.Ops = s.hist.Ops[:len(s.hist.Ops)-1] }()

	var want []string
	var wantIDs []string
	judged := true
	switch {
	case idx >= lo: // buffered (incl. newest)
		for _, e := range s.m.Entries[idx+1:] {
			if topicsMeet(e.Topics, subTopics) {
				want = append(want, e.Token)
				wantIDs = append(wantIDs, e.ID)
			}
		}
	case idx >= 0 && idx < lo: // evicted
		if s.m.Auto {
			judged = false // not constrained by the property
			s.r.Count("unjudged_evicted_auto", 1)
		}
	default:
		// never issued or unset: nothing. Numeric look-alikes of issued auto IDs ("007") are
		// not judged: whether they name an issued event is a matter of reading.
		if s.m.Auto && id.IsSet() {
			if n, err := strconv.ParseUint(id.String(), 10, 64); err == nil && n < s.m.NextID && strconv.FormatUint(n, 10) != id.String() {
				judged = false
				s.r.Count("unjudged_numeric_lookalike", 1)
			}
		}
	}
	// An event outside the buffer (evicted) must never be sent, whatever was presented.
	inBuf := make(map[string]struct{}, len(s.m.Entries)-lo)
	for _, e := range s.m.Entries[lo:] {
		inBuf[e.Token] = struct{}{}
	}
	for _, t := range o.Tokens {
		if _, found := inBuf[t]; !found {
			s.viol([]string{"replayed_event_not_in_buffer", "class_" + class}, "Replay sent %q which is not among the last %d events", t, s.m.Cap)
			return
		}
	}
	if !judged {
		return
	}
	if failSend > 0 && failSend <= len(want) {
		if !eqStrings(o.Tokens, want[:failSend]) {
			s.viol([]string{"sends_after_failure_or_wrong", "class_" + class}, "with Send #%d failing: sends %v, want %v", failSend, o.Tokens, want[:failSend])
		}
		if !errors.Is(o.Err, errInjectedSend) {
			s.viol([]string{"send_error_lost"}, "with Send #%d failing Replay returned %v", failSend, o.Err)
		}
		return
	}
	if !eqStrings(o.Tokens, want) {
		tags := []string{"replay_sequence_wrong", "class_" + class}
		if class == "newest" && len(want) == 0 && len(o.Tokens) == min(len(s.m.Entries), s.m.Cap) {
			tags = append(tags, "newest_replays_whole_buffer")
		}
		s.viol(tags, "Replay(%s %q, topics %v) sent %v, want %v", class, id.String(), subTopics, o.Tokens, want)
		return
	}
	if !eqStrings(o.IDs, wantIDs) {
		s.viol([]string{"replayed_ids_wrong"}, "Replay sent IDs %v, want %v", o.IDs, wantIDs)
	}
	if len(want) > 0 {
		if failFlush == 1 {
			if !errors.Is(o.Err, errInjectedFlush) {
				s.viol([]string{"flush_error_lost"}, "Flush failed but Replay returned %v", o.Err)
			}
			return
		}
		if !o.FlushAfter {
			s.viol([]string{"missing_flush"}, "Replay sent %d events and did not flush afterwards", len(want))
		}
		if o.Err != nil && failFlush == 0 {
			s.viol([]string{"replay_error_without_fault"}, "Replay returned %v without any injected fault", o.Err)
		}
	} else if o.Err != nil && failFlush == 0 {
		s.viol([]string{"replay_error_without_fault"}, "Replay returned %v without any injected fault", o.Err)
	}
}

// replayAllClasses presents every class of ID after the current history.
func (s *c08State) replayAllClasses(rng *rand.Rand, faults bool) {
	lo := s.m.windowFinite()
	n := len(s.m.Entries)
	subs := topicSets[:3]
	for _, st := range subs {
		for i := lo; i < n; i++ {
			class := "middle"
			if i == lo {
				class = "oldest"
			}
			if i == n-1 {
				class = "newest"
			}
			s.replay(class, sse.ID(s.m.Entries[i].ID), st, 0, 0)
		}
		for i := 0; i < lo; i++ {
			s.replay("evicted", sse.ID(s.m.Entries[i].ID), st, 0, 0)
		}
		s.replay("unset", sse.EventID{}, st, 0, 0)
		for _, ni := range s.neverIssued() {
			s.replay("never_issued", sse.ID(ni), st, 0, 0)
		}
	}
	if faults && n > lo {
		// Send failing at every position of the longest replay, and a failing Flush.
		id := sse.ID(s.m.Entries[lo].ID)
		for k := 1; k <= n-lo-1; k++ {
			s.replay("oldest", id, []string{"a", "b"}, k, 0)
		}
		s.replay("oldest", id, []string{"a", "b"}, 0, 1)
	}
	_ = rng
}

func (s *c08State) neverIssued() []string {
	out := []string{"never", "-1", "1x", " 1", "18446744073709551616"}
	if s.m.find("") < 0 {
		out = append(out, "")
	}
	if s.m.Auto {
		out = append(out, strconv.FormatUint(s.m.NextID, 10), strconv.FormatUint(s.m.NextID+1, 10), strconv.FormatUint(s.m.NextID+uint64(s.m.Cap), 10), "18446744073709551615", "007", "00")
	} else {
		out = append(out, "id-m0", "id-m"+strconv.Itoa(s.ntok+1), "0", "1")
	}
	return out
}

func c08New(r *fw.Run, key string, capN int, auto bool) *c08State {
	return c08NewAt(r, key, capN, auto, 0)
}

// autoIDStarts: values the automatic-ID counter is moved to before the first Put, so that
// histories cross digit-count and word-size boundaries.
var autoIDStarts = []uint64{7, 97, 1<<7 - 3, 1<<8 - 3, 1<<15 - 3, 1<<16 - 3, 999999995, 1<<31 - 4, 1<<32 - 4, 9999999997, 1<<53 - 3, 1<<63 - 5}

func c08NewAt(r *fw.Run, key string, capN int, auto bool, start uint64) *c08State {
	rp, err := sse.NewFiniteReplayer(capN, auto)
	if err != nil {
		r.Violation(key, []string{"constructor_failed"}, nil, "NewFiniteReplayer(%d,%v): %v", capN, auto, err)
		return nil
	}
	s := &c08State{r: r, key: key, rp: rp, m: &rpModel{Auto: auto, Cap: capN}, hist: &c08Hist{Cap: capN, Auto: auto}, shape: map[string]struct{}{}}
	if auto && start > 0 && mon.SetAutoIDCounter(rp, start) {
		s.m.NextID = start
		s.hist.Ops = append(s.hist.Ops, fmt.Sprintf("(automatic-ID counter moved to %d)", start))
		r.Count("histories_with_moved_id_counter", 1)
	}
	return s
}

func TestC08(t *testing.T) {
	r := fw.Start(t, "C08")
	defer r.Finish()
	shapes := map[string]struct{}{}
	// (A) exhaustive: for N in {2,3,4}, both modes, every topic pattern from a fixed list,
	// Puts up to 2N+2 with every ID class presented after every Put.
	patterns := [][]int{{0}, {1}, {2}, {0, 1}, {0, 1, 2}, {2, 1, 0, 0, 1}, {0, 0, 1}}
	idx := 0
	caps := []int{2, 3, 4}
	if r.Thorough() {
		caps = []int{2, 3, 4, 5, 6}
	}
	for _, capN := range caps {
		for _, auto := range []bool{false, true} {
			for _, pat := range patterns {
				i := idx
				idx++
				if !r.Mine("A", i) {
					continue
				}
				key := fw.Key("A", i)
				r.Begin(key, fmt.Sprintf("cap=%d auto=%v pat=%v", capN, auto, pat))
				s := c08New(r, key, capN, auto)
				if s == nil {
					continue
				}
				// before any Put
				s.replayAllClasses(nil, false)
				for h := 0; h < 2*capN+2; h++ {
					if !auto && h == 1 {
						s.put(topicSets[pat[h%len(pat)]], "empty_id")
					} else {
						s.put(topicSets[pat[h%len(pat)]], "valid")
					}
					s.replayAllClasses(nil, true)
					// replay must not change state: repeat one replay and compare through the model again
					if h%2 == 1 {
						s.put(topicSets[0], []string{"wrong_id_mode", "no_topics", "empty_topics"}[h%3])
						s.replayAllClasses(nil, false)
					}
				}
				for k := range s.shape {
					shapes[k] = struct{}{}
				}
				r.Eval(fw.Hash("c08A", key, fmt.Sprint(capN, auto, pat)), true)
				r.Sample("exhaustive_history", 1, map[string]any{"capacity": capN, "auto": auto, "topic_pattern": pat, "puts": 2*capN + 2, "ring_shapes": len(s.shape)})
			}
		}
	}
	r.Exhaustive("for each capacity, ID mode and topic pattern: every presented-ID class (each buffered position, each evicted ID, unset, never-issued forms) x 3 subscription topic sets after every one of 2N+2 Puts, Send failing at every position of the longest replay")
	// (B) random histories.
	n := r.N(40000, 600000)
	capsB := []int{2, 3, 4, 5, 6, 7, 8, 9, 16, 64}
	for i := 0; i < n; i++ {
		if !r.Mine("B", i) {
			continue
		}
		key := fw.Key("B", i)
		rng := r.Rand("B", i)
		capN := capsB[rng.IntN(len(capsB))]
		auto := rng.IntN(2) == 0
		r.Begin(key, fmt.Sprintf("cap=%d auto=%v", capN, auto))
		var start uint64
		if auto && rng.IntN(4) == 0 {
			start = autoIDStarts[rng.IntN(len(autoIDStarts))]
		}
		s := c08NewAt(r, key, capN, auto, start)
		if s == nil {
			continue
		}
		nops := 3 + rng.IntN(3*capN+6)
		if nops > 80 {
			nops = 80
		}
		var sig strings.Builder
		usedEmpty := false
		for j := 0; j < nops; j++ {
			switch x := rng.IntN(10); {
			case x < 5:
				if !auto && !usedEmpty && rng.IntN(6) == 0 {
					usedEmpty = true
					s.put(topicSetsX[rng.IntN(len(topicSetsX))], "empty_id")
				} else {
					s.put(topicSetsX[rng.IntN(len(topicSetsX))], "valid")
				}
				sig.WriteByte('P')
			case x == 5 && rng.IntN(2) == 0:
				s.putAgain()
				sig.WriteByte('A')
			case x == 5:
				s.put(topicSetsX[rng.IntN(len(topicSetsX))], []string{"wrong_id_mode", "no_topics", "empty_topics"}[rng.IntN(3)])
				sig.WriteByte('X')
			default:
				lo, nn := s.m.windowFinite(), len(s.m.Entries)
				sub := topicSetsX[rng.IntN(len(topicSetsX))]
				if rng.IntN(3) == 0 {
					sub = append(append([]string{}, sub...), topicSetsX[rng.IntN(len(topicSetsX))]...)
				}
				fs, ff := 0, 0
				if rng.IntN(4) == 0 {
					fs = 1 + rng.IntN(3)
				} else if rng.IntN(6) == 0 {
					ff = 1
				}
				switch y := rng.IntN(8); {
				case y < 3 && nn > lo:
					k := lo + rng.IntN(nn-lo)
					class := "middle"
					if k == lo {
						class = "oldest"
					}
					if k == nn-1 {
						class = "newest"
					}
					s.replay(class, sse.ID(s.m.Entries[k].ID), sub, fs, ff)
				case y == 3 && nn > lo:
					s.replay("newest", sse.ID(s.m.Entries[nn-1].ID), sub, fs, ff)
				case y == 4 && lo > 0:
					s.replay("evicted", sse.ID(s.m.Entries[rng.IntN(lo)].ID), sub, fs, ff)
				case y == 5:
					s.replay("unset", sse.EventID{}, sub, fs, ff)
				default:
					ni := s.neverIssued()
					s.replay("never_issued", sse.ID(ni[rng.IntN(len(ni))]), sub, fs, ff)
				}
				sig.WriteByte('R')
			}
		}
		for k := range s.shape {
			shapes[k] = struct{}{}
		}
		r.Eval(fw.Hash("c08B", fmt.Sprint(capN, auto), sig.String()), len(s.m.Entries) > capN)
		if i < 64 {
			r.Sample("random_history", 2, s.hist)
		}
	}
	// (L) large capacities: hundreds of slots, thousands of Puts, the ring wraps several times
	nl := r.N(48, 800)
	for i := 0; i < nl; i++ {
		if !r.Mine("L", i) {
			continue
		}
		key := fw.Key("L", i)
		rng := r.Rand("L", i)
		capN := []int{100, 128, 300, 1000}[rng.IntN(4)]
		auto := rng.IntN(2) == 0
		var start uint64
		if auto && rng.IntN(2) == 0 {
			start = autoIDStarts[rng.IntN(len(autoIDStarts))]
		}
		r.Begin(key, fmt.Sprintf("large cap=%d auto=%v start=%d", capN, auto, start))
		s := c08NewAt(r, key, capN, auto, start)
		if s == nil {
			continue
		}
		nputs := capN/2 + rng.IntN(3*capN)
		for j := 0; j < nputs; j++ {
			s.put(topicSets[rng.IntN(3)], "valid")
			if rng.IntN(40) == 0 {
				s.put(topicSets[0], []string{"wrong_id_mode", "no_topics"}[rng.IntN(2)])
			}
			if rng.IntN(25) == 0 || j == nputs-1 {
				lo, nn := s.m.windowFinite(), len(s.m.Entries)
				sub := topicSets[rng.IntN(3)]
				for _, k := range []int{lo, lo + (nn-lo)/2, nn - 2, nn - 1} {
					if k >= lo && k < nn {
						class := "middle"
						if k == lo {
							class = "oldest"
						}
						if k == nn-1 {
							class = "newest"
						}
						s.replay(class, sse.ID(s.m.Entries[k].ID), sub, 0, 0)
					}
				}
				if lo > 0 {
					s.replay("evicted", sse.ID(s.m.Entries[lo-1].ID), sub, 0, 0)
				}
				s.replay("unset", sse.EventID{}, sub, 0, 0)
				for _, ni := range s.neverIssued() {
					s.replay("never_issued", sse.ID(ni), sub, 0, 0)
				}
				// faults deep inside a long replay: the k-th Send, the first Flush (an implementation
				// that flushes in between must not lose that error)
				if nn-lo > 10 {
					all := []string{"a", "b", ""}
					s.replay("oldest", sse.ID(s.m.Entries[lo].ID), all, 1+rng.IntN(nn-lo-1), 0)
					s.replay("oldest", sse.ID(s.m.Entries[lo].ID), all, 0, 1)
				}
			}
		}
		s.hist.Ops = []string{fmt.Sprintf("(%d puts into capacity %d; op list omitted)", nputs, capN)}
		for k := range s.shape {
			shapes[k] = struct{}{}
		}
		r.Eval(fw.Hash("c08L", fmt.Sprint(capN, auto, start, nputs)), true)
	}
	// (H) one huge history: a capacity of 70000 and 150000 Puts (counts beyond 16 bits)
	if r.Mine("H", 0) {
		key := fw.Key("H", 0)
		r.Begin(key, "finite capacity 70000, 150000 puts")
		for _, auto := range []bool{true, false} {
			rp, _ := sse.NewFiniteReplayer(70000, auto)
			const total = 150000
			ids := make([]string, total)
			for k := 0; k < total; k++ {
				msg := mkMsg("h"+strconv.Itoa(k), "hid-"+strconv.Itoa(k), !auto)
				got, err := rp.Put(msg, []string{"a"})
				if err != nil || got == nil {
					r.Violation(key, []string{"valid_put_rejected"}, nil, "C08: Put #%d failed: %v", k, err)
					break
				}
				ids[k] = got.ID.String()
			}
			for _, from := range []int{total - 70000, total - 65537, total - 65536, total - 2, total - 1} {
				o := rpDoReplay(rp, sse.ID(ids[from]), []string{"a"}, 0, 0)
				okSeq := len(o.Tokens) == total-1-from
				for k := 0; okSeq && k < len(o.Tokens); k++ {
					okSeq = o.Tokens[k] == "h"+strconv.Itoa(from+1+k)
				}
				r.Count("replays", 1)
				r.Count("sends_observed", int64(len(o.Tokens)))
				if !okSeq {
					r.Violation(key, []string{"replay_sequence_wrong", "huge_history"}, map[string]any{"capacity": 70000, "puts": total, "auto": auto, "from_index": from, "sent": len(o.Tokens), "want": total - 1 - from}, "C08: capacity 70000 after %d puts: replay from put #%d sent %d events, want %d", total, from, len(o.Tokens), total-1-from)
				}
			}
			if o := rpDoReplay(rp, sse.ID(ids[total-70001]), []string{"a"}, 0, 0); !auto && len(o.Tokens) != 0 {
				r.Violation(key, []string{"replayed_event_not_in_buffer", "huge_history"}, nil, "C08: an evicted manual ID replayed %d events", len(o.Tokens))
			}
		}
		r.Eval(fw.Hash("c08H"), true)
	}
	r.Count("ring_shapes_distinct_in_batch", int64(len(shapes)))
}

// ---- C09 ---------------------------------------------------------------------------------

type c09State struct {
	share topicShare
	r     *fw.Run
	key   string
	rp    *sse.ValidReplayer
	m     *rpModel
	ops   []string
	now   time.Time
	ntok  int
	cfg   string
	shape map[string]struct{}
}

func (s *c09State) viol(tags []string, format string, a ...any) {
	ops := s.ops
	if len(ops) > 80 {
		ops = append([]string{fmt.Sprintf("(... %d earlier ops omitted ...)", len(ops)-80)}, ops[len(ops)-80:]...)
	}
	s.r.Violation(s.key, tags, map[string]any{"config": s.cfg, "ops": append([]string(nil), ops...), "detail": fmt.Sprintf(format, a...)}, "C09: "+format, a...)
}

func (s *c09State) probe() {
	if len(s.m.Entries) > 400 && len(s.m.Entries)%64 != 0 {
		return // the reflection walk is linear in the ring size
	}
	sh := mon.ProbeShape(s.rp)
	if sh.OK {
		s.shape[fmt.Sprintf("%d/%d/%d/%d", sh.Head, sh.Tail, sh.Count, sh.Cap)] = struct{}{}
		s.r.Max("max_buffer_cap_seen", int64(sh.Cap))
	}
}

func (s *c09State) put(topics []string) {
	s.ntok++
	tok := "m" + strconv.Itoa(s.ntok)
	var msg *sse.Message
	id := ""
	if s.m.Auto {
		msg = mkMsg(tok, "", false)
		id = strconv.FormatUint(s.m.NextID, 10)
	} else {
		id = "id-" + tok
		if s.ntok == 2 {
			id = "" // set but empty
		}
		msg = mkMsg(tok, id, true)
	}
	s.ops = append(s.ops, fmt.Sprintf("Put(%s,topics=%v)@%d", tok, topics, s.now.Sub(c09Epoch)))
	if s.share == nil {
		s.share = topicShare{}
	}
	got, err := s.rp.Put(msg, s.share.of(topics))
	s.r.Count("puts", 1)
	if err != nil || got == nil {
		s.viol([]string{"valid_put_rejected"}, "valid Put returned (%v,%v)", got, err)
		return
	}
	if got.ID.String() != id || !got.ID.IsSet() {
		s.viol([]string{"put_id_wrong"}, "Put returned ID %q, want %q", got.ID.String(), id)
	}
	if s.m.Auto {
		s.m.NextID++
	}
	s.m.Entries = append(s.m.Entries, rpEntry{ID: got.ID.String(), Token: tok, Topics: topics, PutTime: s.now})
	s.probe()
}

func (s *c09State) badPut() {
	s.ntok++
	tok := "m" + strconv.Itoa(s.ntok)
	var msg *sse.Message
	topics := []string{"a"}
	mode := s.ntok % 2
	if mode == 0 {
		topics = nil
		if s.m.Auto {
			msg = mkMsg(tok, "", false)
		} else {
			msg = mkMsg(tok, "id-"+tok, true)
		}
	} else if s.m.Auto {
		own := []string{"own", strconv.FormatUint(s.m.NextID, 10), strconv.FormatUint(s.m.NextID+7, 10), "0"}[(s.ntok/2)%4]
		msg = mkMsg(tok, own, true)
	} else {
		msg = mkMsg(tok, "", false)
	}
	s.ops = append(s.ops, fmt.Sprintf("BadPut(%s,mode=%d)@%d", tok, mode, s.now.Sub(c09Epoch)))
	if got, err := s.rp.Put(msg, topics); err == nil || got != nil {
		s.viol([]string{"invalid_put_accepted"}, "invalid Put accepted")
	}
	s.probe()
}

func (s *c09State) replay(class string, id sse.EventID, sub []string, failSend int) {
	s.ops = append(s.ops, fmt.Sprintf("Replay(%s id=%q set=%v topics=%v failSend=%d)@%d", class, id.String(), id.IsSet(), sub, failSend, s.now.Sub(c09Epoch)))
	defer func() { s.ops = s.ops[:len(s.ops)-1] }()
	o := rpDoReplay(s.rp, id, sub, failSend, 0)
	s.r.Count("replays", 1)
	s.r.Count("replay_class_"+class, 1)
	s.r.Count("sends_observed", int64(len(o.Tokens)))
	fu := s.m.firstUnexpired(s.now)
	// Never an expired event, whatever was presented.
	live := make(map[string]struct{}, len(s.m.Entries)-fu)
	for _, e := range s.m.Entries[fu:] {
		live[e.Token] = struct{}{}
	}
	for _, t := range o.Tokens {
		if _, ok := live[t]; !ok {
			s.viol([]string{"expired_event_replayed", "class_" + class}, "Replay sent %q which has expired (or was never put)", t)
			return
		}
	}
	idx := -1
	if id.IsSet() {
		idx = s.m.find(id.String())
	}
	var want []string
	switch {
	case idx >= fu:
		for _, e := range s.m.Entries[idx+1:] {
			if topicsMeet(e.Topics, sub) {
				want = append(want, e.Token)
			}
		}
	case idx >= 0:
		s.r.Count("unjudged_expired_id", 1)
		return // expired ID presented: unconstrained
	default:
		if s.m.Auto && id.IsSet() {
			if n, err := strconv.ParseUint(id.String(), 10, 64); err == nil && n < s.m.NextID && strconv.FormatUint(n, 10) != id.String() {
				s.r.Count("unjudged_numeric_lookalike", 1)
				return
			}
		}
	}
	if failSend > 0 && failSend <= len(want) {
		if !eqStrings(o.Tokens, want[:failSend]) || !errors.Is(o.Err, errInjectedSend) {
			s.viol([]string{"sends_after_failure_or_wrong"}, "with Send #%d failing: sends %v err %v, want %v", failSend, o.Tokens, o.Err, want[:failSend])
		}
		return
	}
	if !eqStrings(o.Tokens, want) {
		tags := []string{"replay_sequence_wrong", "class_" + class}
		if class == "newest" && len(o.Tokens) > 0 {
			tags = append(tags, "newest_replays_whole_buffer")
		}
		if len(o.Tokens) < len(want) {
			tags = append(tags, "unexpired_event_missing")
		}
		s.viol(tags, "Replay(%s %q topics %v) sent %v, want %v", class, id.String(), sub, o.Tokens, want)
		return
	}
	if len(want) > 0 && !o.FlushAfter {
		s.viol([]string{"missing_flush"}, "Replay sent %d events without flushing afterwards", len(want))
	}
	if o.Err != nil {
		s.viol([]string{"replay_error_without_fault"}, "Replay returned %v", o.Err)
	}
}

func (s *c09State) replayAll(full bool) {
	fu := s.m.firstUnexpired(s.now)
	n := len(s.m.Entries)
	subs := topicSets[:3]
	if !full {
		subs = topicSets[2:3]
	}
	for _, st := range subs {
		for i := fu; i < n; i++ {
			class := "middle"
			if i == fu {
				class = "oldest_unexpired"
			}
			if i == n-1 {
				class = "newest"
			}
			s.replay(class, sse.ID(s.m.Entries[i].ID), st, 0)
		}
		if fu > 0 {
			s.replay("expired", sse.ID(s.m.Entries[fu-1].ID), st, 0)
			s.replay("expired", sse.ID(s.m.Entries[0].ID), st, 0)
		}
		s.replay("unset", sse.EventID{}, st, 0)
		s.replay("never_issued", sse.ID("never"), st, 0)
		if s.m.Auto {
			s.replay("never_issued", sse.ID(strconv.FormatUint(s.m.NextID, 10)), st, 0)
			s.replay("never_issued", sse.ID(strconv.FormatUint(s.m.NextID+3, 10)), st, 0)
		}
	}
	if full && n-fu >= 2 {
		for k := 1; k < n-fu && k <= 3; k++ {
			s.replay("oldest_unexpired", sse.ID(s.m.Entries[fu].ID), []string{"a", "b"}, k)
		}
	}
}

// replaySome presents a handful of IDs of a large history (oldest unexpired, middle, newest,
// an expired one, unset, never issued).
func (s *c09State) replaySome(rng *rand.Rand) {
	fu := s.m.firstUnexpired(s.now)
	n := len(s.m.Entries)
	sub := topicSets[rng.IntN(3)]
	for _, k := range []int{fu, fu + (n-fu)/2, n - 2, n - 1} {
		if k >= fu && k < n {
			class := "middle"
			if k == fu {
				class = "oldest_unexpired"
			}
			if k == n-1 {
				class = "newest"
			}
			s.replay(class, sse.ID(s.m.Entries[k].ID), sub, 0)
		}
	}
	if fu > 0 {
		s.replay("expired", sse.ID(s.m.Entries[fu-1].ID), sub, 0)
	}
	s.replay("unset", sse.EventID{}, sub, 0)
	s.replay("never_issued", sse.ID("never"), sub, 0)
}

var c09Epoch = time.Date(2024, 1, 1, 0, 0, 0, 0, time.UTC)

// c09Start: where the next ValidReplayer's automatic-ID counter is moved to (0 = leave at 0).
var c09Start uint64

func c09New(r *fw.Run, key string, ttl time.Duration, auto bool, gcMode int) *c09State {
	rp, err := sse.NewValidReplayer(ttl, auto)
	if err != nil {
		r.Violation(key, []string{"constructor_failed"}, nil, "NewValidReplayer: %v", err)
		return nil
	}
	s := &c09State{r: r, key: key, rp: rp, m: &rpModel{Auto: auto, TTL: ttl}, now: c09Epoch, shape: map[string]struct{}{}}
	if auto && c09Start > 0 && mon.SetAutoIDCounter(rp, c09Start) {
		s.m.NextID = c09Start
		r.Count("histories_with_moved_id_counter", 1)
	}
	rp.Now = func() time.Time { return s.now }
	switch gcMode {
	case 0:
		rp.GCInterval = 0
	case 1: // default ttl/4
	case 2:
		rp.GCInterval = ttl / 2
	case 3:
		rp.GCInterval = ttl
	case 4:
		rp.GCInterval = 5 * ttl
	case 5:
		rp.GCInterval = 1
	}
	s.cfg = fmt.Sprintf("ttl=%d auto=%v gcInterval=%d", ttl, auto, rp.GCInterval)
	return s
}

func (s *c09State) advance(d time.Duration) {
	s.now = s.now.Add(d)
	s.ops = append(s.ops, fmt.Sprintf("Advance(%d)", d))
}

func (s *c09State) gc() {
	s.ops = append(s.ops, fmt.Sprintf("GC@%d", s.now.Sub(c09Epoch)))
	s.rp.GC()
	s.r.Count("gcs", 1)
	s.probe()
}

func TestC09(t *testing.T) {
	r := fw.Start(t, "C09")
	defer r.Finish()
	shapes := map[string]struct{}{}
	// (A) exhaustive op strings over {Put a, Put b, GC, +1, +TTL-1 (=1 when TTL=2), +TTL} of
	// length <= L for TTL=2, all GC modes, both ID modes; replays of every class after every op.
	L := 6
	if r.Thorough() {
		L = 8
	}
	alpha := 5 // Pa, Pb, GC, +1, +2
	total := 0
	blk := 1
	for l := 1; l <= L; l++ {
		blk *= alpha
		total += blk
	}
	cfgs := 0
	for gcMode := 0; gcMode <= 5; gcMode++ {
		for _, auto := range []bool{false, true} {
			cfgIdx := cfgs
			cfgs++
			// Only the full-length strings are run (their prefixes are checked on the way):
			// every op is followed by a replay of all classes.
			nFull := 1
			for l := 0; l < L; l++ {
				nFull *= alpha
			}
			for w := 0; w < nFull; w++ {
				ci := cfgIdx*nFull + w
				if !r.Mine("A", ci) {
					continue
				}
				key := fw.Key("A", ci)
				if w%64 == 0 {
					r.Begin(key, fmt.Sprintf("gcMode=%d auto=%v word=%d", gcMode, auto, w))
				}
				s := c09New(r, key, 2, auto, gcMode)
				if s == nil {
					continue
				}
				x := w
				var sig strings.Builder
				for l := 0; l < L; l++ {
					op := x % alpha
					x /= alpha
					sig.WriteByte(byte('0' + op))
					switch op {
					case 0:
						s.put([]string{"a"})
					case 1:
						s.put([]string{"b"})
					case 2:
						s.gc()
					case 3:
						s.advance(1)
					case 4:
						s.advance(2)
					}
					s.replayAll(false)
				}
				for k := range s.shape {
					shapes[k] = struct{}{}
				}
				r.Eval(fw.Hash("c09A", s.cfg, sig.String()), strings.ContainsAny(sig.String(), "01") && strings.ContainsAny(sig.String(), "34"))
			}
		}
	}
	_ = total
	{
		r.Exhaustive(fmt.Sprintf("TTL=2: all op strings of length %d over {Put a, Put b, GC, +1, +2} x 6 GCInterval settings x both ID modes, every ID class replayed after every op", L))
	}
	// (B) random long histories with growth / wrap / shrink.
	n := r.N(3000, 100000)
	ttls := []time.Duration{1, 10, 1000, time.Second, 1, 10, 1000, time.Second, 100 * 365 * 24 * time.Hour, 1<<63 - 1}
	for i := 0; i < n; i++ {
		if !r.Mine("B", i) {
			continue
		}
		key := fw.Key("B", i)
		rng := r.Rand("B", i)
		ttl := ttls[rng.IntN(len(ttls))]
		auto := rng.IntN(2) == 0
		gcMode := rng.IntN(6)
		r.Begin(key, fmt.Sprintf("ttl=%d auto=%v gc=%d", ttl, auto, gcMode))
		c09Start = 0
		if auto && rng.IntN(4) == 0 {
			c09Start = autoIDStarts[rng.IntN(len(autoIDStarts))]
		}
		s := c09New(r, key, ttl, auto, gcMode)
		c09Start = 0
		if s == nil {
			continue
		}
		if s.m.NextID > 0 {
			s.cfg += fmt.Sprintf(" id-counter-moved-to=%d", s.m.NextID)
		}
		deltas := []time.Duration{0, 1, ttl / 4, ttl - 1, ttl, ttl + 1, 3 * ttl, ttl / 2}
		if ttl > 24*time.Hour {
			// "keep (almost) forever": the clock only moves by amounts that stay far from any overflow
			deltas = []time.Duration{0, 1, time.Second, time.Hour, 24 * time.Hour, 1000}
		}
		nops := 5 + rng.IntN(120)
		var sig strings.Builder
		burst := 0
		if i%300 == 7 {
			// a long history with bursts of hundreds of events (the ring grows to 1024+ slots and
			// shrinks back several times)
			nops = 1500 + rng.IntN(1500)
		}
		for j := 0; j < nops; j++ {
			x := rng.IntN(20)
			if burst > 0 {
				x = 0
				burst--
			}
			switch {
			case x < 9:
				s.put(topicSetsX[rng.IntN(len(topicSetsX))])
				sig.WriteByte('P')
				if rng.IntN(12) == 0 {
					burst = 3 + rng.IntN(30) // grow the buffer
					if nops > 1000 {
						burst = 100 + rng.IntN(500)
					}
				}
			case x == 9:
				s.badPut()
				sig.WriteByte('X')
			case x < 12:
				s.gc()
				sig.WriteByte('G')
			case x < 16:
				d := deltas[rng.IntN(len(deltas))]
				if d < 0 {
					d = 0
				}
				s.advance(d)
				sig.WriteString("A" + strconv.Itoa(int(d)))
			default:
				if nops > 1000 {
					s.replaySome(rng)
				} else {
					s.replayAll(rng.IntN(3) == 0)
				}
				sig.WriteByte('R')
			}
		}
		if nops > 1000 {
			s.replaySome(rng)
			s.ops = s.ops[max(0, len(s.ops)-40):]
		} else {
			s.replayAll(true)
		}
		for k := range s.shape {
			shapes[k] = struct{}{}
		}
		r.Eval(fw.Hash("c09B", s.cfg, sig.String()), len(s.m.Entries) > 4)
		if i < 64 {
			r.Sample("random_history", 2, map[string]any{"config": s.cfg, "ops": s.ops[:min(len(s.ops), 40)], "ring_shapes": len(s.shape)})
		}
	}
	// (H) one huge history: more than 2^16 simultaneously unexpired events
	if r.Mine("H", 0) {
		key := fw.Key("H", 0)
		r.Begin(key, "valid replayer with 70000 unexpired events")
		for _, auto := range []bool{true, false} {
			rp, _ := sse.NewValidReplayer(time.Hour, auto)
			now := c09Epoch
			rp.Now = func() time.Time { return now }
			const total = 70000
			ids := make([]string, total)
			for k := 0; k < total; k++ {
				if k%1000 == 0 {
					now = now.Add(time.Millisecond)
				}
				got, err := rp.Put(mkMsg("h"+strconv.Itoa(k), "hid-"+strconv.Itoa(k), !auto), []string{"a"})
				if err != nil || got == nil {
					r.Violation(key, []string{"valid_put_rejected"}, nil, "C09: Put #%d failed: %v", k, err)
					break
				}
				ids[k] = got.ID.String()
			}
			for _, from := range []int{0, 1, total - 65537, total - 65536, total - 2, total - 1} {
				o := rpDoReplay(rp, sse.ID(ids[from]), []string{"a"}, 0, 0)
				okSeq := len(o.Tokens) == total-1-from
				for k := 0; okSeq && k < len(o.Tokens); k++ {
					okSeq = o.Tokens[k] == "h"+strconv.Itoa(from+1+k)
				}
				r.Count("replays", 1)
				r.Count("sends_observed", int64(len(o.Tokens)))
				if !okSeq {
					r.Violation(key, []string{"replay_sequence_wrong", "unexpired_event_missing", "huge_history"}, map[string]any{"puts": total, "auto": auto, "from_index": from, "sent": len(o.Tokens), "want": total - 1 - from}, "C09: %d unexpired events: replay from put #%d sent %d events, want %d", total, from, len(o.Tokens), total-1-from)
				}
			}
		}
		r.Eval(fw.Hash("c09H"), true)
	}
	r.Count("ring_shapes_distinct_in_batch", int64(len(shapes)))
}
