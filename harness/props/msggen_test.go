package props

import (
	"fmt"
	"math/rand/v2"
	"strings"
	"time"

	sse "github.com/tmaxmax/go-sse"

	"verifharness/fw"
	"verifharness/ref"
)

// hostilePool: strings crafted to look like protocol syntax.
var hostilePool = []string{
	"", " ", "  x", "x ", " x ", ":", ": x", ":x", "id: x", "id:x", "data: evil", "data:", "data", "event: e", "retry: 5", "retry:5",
	"\n", "\r", "\r\n", "\n\n", "\r\r", "\r\n\r\n", "\n\r", "\n\ndata: evil", "\n\nid: evil\n\n", "\r\rdata: evil\r\r", "x\n\ndata: evil\n\n",
	"a\nb", "a\rb", "a\r\nb", "a\n\rb", "a\r\r\nb", "\na", "a\n", "a\r", "a\r\n", "\r\na\r\n", "a\n\nb", "a\n \nb", " a\n b\r c",
	ref.BOM, ref.BOM + "x", "x" + ref.BOM, "\x00", "a\x00b", "\xff", "\xff\xfe\n\xfd", "é", "日本\n語", "\xe2\x80\xa8", "\x0b", "\x0c", "\xc2\x85", " x",
	"event: x\n\n", "id\n", "id", ": comment", "::", " :", "\t", "\tx", "a:b:c", "a: b", "hello world", "x", "0", "-1", "+1",
	"data: a\ndata: b", "line1\nline2\nline3", "\n\n\n", "\r\n\r\n\r\n", " \n ", ":\n:", "\nid: 1\ndata: x\n\n",
	// literals an implementation might treat as "default" or as a marker
	"message", "open", "error", "null", "undefined", "true", "false", "*", "all", "default", "nil", "NaN", "retry", "event", "id", "data", "comment",
}

// hostileSmall: number of pool entries before the three very large ones appended in init
var hostileSmall int

func init() {
	hostileSmall = len(hostilePool)
	hostilePool = append(hostilePool, strings.Repeat("L", 70*1024), strings.Repeat("ab\n", 2000), strings.Repeat("q", 4095)+"\n"+strings.Repeat("r", 4097))
}

var smallAlpha = []string{"a", " ", ":", "\r", "\n", "\x00"}

// smallString enumerates strings over smallAlpha: idx 0.. in length-major order (length 1 first).
func smallString(alpha []string, idx int) string {
	n := len(alpha)
	l, block := 1, n
	for idx >= block {
		idx -= block
		block *= n
		l++
	}
	var b strings.Builder
	for i := 0; i < l; i++ {
		b.WriteString(alpha[idx%n])
		idx /= n
	}
	return b.String()
}

func smallCount(alpha []string, maxLen int) int {
	n, tot, blk := len(alpha), 0, 1
	for i := 0; i < maxLen; i++ {
		blk *= n
		tot += blk
	}
	return tot
}

func pickString(rng *rand.Rand) string {
	switch rng.IntN(10) {
	case 0, 1, 2:
		return smallString(smallAlpha, rng.IntN(smallCount(smallAlpha, 5)))
	case 3:
		// random concatenation of two pool entries
		return hostilePool[rng.IntN(hostileSmall)] + hostilePool[rng.IntN(hostileSmall)]
	default:
		return hostilePool[rng.IntN(len(hostilePool))]
	}
}

var retryPool = []time.Duration{
	-1 << 63, -time.Nanosecond, 0, 999999 * time.Nanosecond, time.Millisecond, 1500 * time.Microsecond, 2 * time.Millisecond,
	15 * time.Second, 9223372036854 * time.Millisecond, 1<<63 - 1, 10 * time.Millisecond, 100 * time.Millisecond, 1000000 * time.Millisecond, 999 * time.Millisecond,
}

// builtMsg is a message built through the public API together with its model.
type builtMsg struct {
	Msg   *sse.Message
	Model *ref.Msg
	Ops   []string
	// Rejected records strings that NewID/NewType refused.
	Rejected []string
}

func hasNewline(s string) bool { return strings.ContainsAny(s, "\r\n") }

// genMessage builds a random message. nulFreeIDs restricts IDs to NUL-free ones.
func genMessage(rng *rand.Rand, nulFreeIDs bool, allowBig bool) *builtMsg {
	b := &builtMsg{Msg: &sse.Message{}, Model: &ref.Msg{}}
	pick := func() string {
		for {
			s := pickString(rng)
			if !allowBig && len(s) > 8192 {
				continue
			}
			return s
		}
	}
	if rng.IntN(2) == 0 {
		s := pick()
		if len(s) > 300 {
			s = s[:300]
		}
		if nulFreeIDs {
			s = strings.ReplaceAll(s, "\x00", "0")
		}
		id, err := sse.NewID(s)
		if err == nil {
			b.Msg.ID = id
			b.Model.HasID, b.Model.ID = true, s
			b.Ops = append(b.Ops, "ID="+fw.Q(s))
		} else {
			b.Rejected = append(b.Rejected, s)
		}
	}
	if rng.IntN(2) == 0 {
		s := pick()
		if len(s) > 300 {
			s = s[:300]
		}
		ty, err := sse.NewType(s)
		if err == nil {
			b.Msg.Type = ty
			b.Model.HasType, b.Model.Type = true, s
			b.Ops = append(b.Ops, "Type="+fw.Q(s))
		} else {
			b.Rejected = append(b.Rejected, s)
		}
	}
	if rng.IntN(3) == 0 {
		d := retryPool[rng.IntN(len(retryPool))]
		b.Msg.Retry = d
		b.Model.RetryMs = d.Milliseconds()
		b.Ops = append(b.Ops, fmt.Sprintf("Retry=%dns", int64(d)))
	}
	ncalls := rng.IntN(7)
	for i := 0; i < ncalls; i++ {
		comment := rng.IntN(4) == 0
		nargs := 1 + rng.IntN(3)
		args := make([]string, nargs)
		for j := range args {
			args[j] = pick()
		}
		if comment {
			b.Msg.AppendComment(args...)
		} else {
			b.Msg.AppendData(args...)
		}
		b.Model.Append(comment, args...)
		q := make([]string, len(args))
		for j, a := range args {
			q[j] = fw.Q(fw.Trunc(a, 60))
		}
		if comment {
			b.Ops = append(b.Ops, "AppendComment("+strings.Join(q, ",")+")")
		} else {
			b.Ops = append(b.Ops, "AppendData("+strings.Join(q, ",")+")")
		}
	}
	return b
}

func modelHostile(m *ref.Msg) bool {
	if strings.ContainsAny(m.ID+m.Type, ": \x00") {
		return true
	}
	for _, l := range m.Lines {
		if l.Text == "" || strings.ContainsAny(l.Text, ":\x00") || strings.HasPrefix(l.Text, " ") || strings.HasSuffix(l.Text, " ") {
			return true
		}
	}
	return len(m.Lines) > 1
}
