package props

import (
	"bytes"
	"context"
	"errors"
	"fmt"
	"io"
	"math/rand/v2"
	"net/http"
	"strconv"
	"strings"
	"testing"
	"testing/synctest"
	"time"

	sse "github.com/tmaxmax/go-sse"

	"verifharness/fw"
)

// Reconnecting by hand: one Connection, several Connect calls (the application calls Connect
// again after it returned because the retries ran out), optionally a pause between
// NewConnection and the first Connect. Every request after the very first one is a
// reconnection: it carries the last dispatched ID and a re-obtained body; every call applies
// the retry limit afresh.

type agAttempt struct {
	Kind   string `json:"kind"` // "terr" | "stream"
	Stream string `json:"stream,omitempty"`
}

type agScript struct {
	MaxRetries  int           `json:"max_retries"` // -1 or 1..3
	Jitter      float64       `json:"jitter"`
	MaxElapsed  int64         `json:"max_elapsed,omitempty"`
	DelayBefore int64         `json:"delay_before_connect,omitempty"`
	Gap         int64         `json:"gap_between_calls,omitempty"`
	Body        string        `json:"body"` // "nil" | "nobody" | "bytes" | "noget" | "closeonce"
	Calls       [][]agAttempt `json:"calls"`
	// PanicAt > 0: the callback panics (once) when it is given the event with data "e<PanicAt>"; the
	// application recovers and goes on to the next Connect call
	PanicAt int `json:"callback_panics_at_event,omitempty"`
}

var errAgainPanic = errors.New("Connect left by a panic of the callback")

// closeOnceBody is a request body whose second Close fails (like *os.File).
type closeOnceBody struct {
	r      *strings.Reader
	closed bool
}

func (b *closeOnceBody) Read(p []byte) (int, error) {
	if b.closed {
		return 0, errors.New("read of closed body")
	}
	return b.r.Read(p)
}

func (b *closeOnceBody) Close() error {
	if b.closed {
		return errors.New("body already closed")
	}
	b.closed = true
	return nil
}

type agReq struct {
	Call      int
	HasHeader bool
	Header    []string
	Body      string
	BodyErr   string
	Kind      string
}

type agObs struct {
	Reqs    []agReq
	Rets    []error
	Retries []int // OnRetry calls per Connect call
	Events  []obsEvent
	TErrs   map[int]error // by request index
	Runaway bool
	Panic   string
	GetBody int
}

func runAgain(t *testing.T, sc *agScript) (obs *agObs) {
	obs = &agObs{TErrs: map[int]error{}}
	defer func() {
		if r := recover(); r != nil {
			obs.Panic = fmt.Sprint(r)
		}
	}()
	synctest.Test(t, func(t *testing.T) {
		ctx, cancel := context.WithCancel(context.Background())
		defer cancel()
		var body io.Reader
		switch sc.Body {
		case "nobody":
			body = http.NoBody
		case "bytes":
			body = bytes.NewReader([]byte(cBodyText))
		case "noget":
			body = noGetReader{strings.NewReader(cBodyText)}
		case "closeonce":
			body = &closeOnceBody{r: strings.NewReader(cBodyText)}
		case "getfail_once:1", "getfail_once:2", "getfail_once:3":
			body = noGetReader{strings.NewReader(cBodyText)}
		}
		req, err := http.NewRequestWithContext(ctx, http.MethodPost, "http://verif.invalid/events", body)
		if err != nil {
			panic(err)
		}
		if sc.Body == "closeonce" {
			req.GetBody = func() (io.ReadCloser, error) {
				obs.GetBody++
				return &closeOnceBody{r: strings.NewReader(cBodyText)}, nil
			}
		} else if strings.HasPrefix(sc.Body, "getfail_once:") {
			// the j-th GetBody call fails, every other one works
			var j int
			fmt.Sscanf(sc.Body, "getfail_once:%d", &j)
			req.GetBody = func() (io.ReadCloser, error) {
				obs.GetBody++
				if obs.GetBody == j {
					return nil, errGetBody
				}
				return io.NopCloser(strings.NewReader(cBodyText)), nil
			}
		} else if req.GetBody != nil {
			orig := req.GetBody
			req.GetBody = func() (io.ReadCloser, error) { obs.GetBody++; return orig() }
		}
		call, inCall := 0, 0
		rt := roundTripFunc(func(r *http.Request) (*http.Response, error) {
			q := agReq{Call: call}
			if v, ok := r.Header["Last-Event-Id"]; ok {
				q.HasHeader, q.Header = true, append([]string(nil), v...)
			}
			if r.Body != nil {
				b, err := io.ReadAll(r.Body)
				r.Body.Close() // as every transport does
				q.Body = string(b)
				if err != nil {
					q.BodyErr = err.Error()
				}
			}
			a := agAttempt{Kind: "terr"}
			if inCall < len(sc.Calls[call]) {
				a = sc.Calls[call][inCall]
			}
			inCall++
			q.Kind = a.Kind
			idx := len(obs.Reqs)
			obs.Reqs = append(obs.Reqs, q)
			if inCall > 64 {
				obs.Runaway = true
				cancel()
				return nil, ctx.Err()
			}
			if a.Kind == "terr" {
				e := &transportErr{n: idx}
				obs.TErrs[idx] = e
				return nil, e
			}
			return &http.Response{Status: "200 OK", StatusCode: 200, Proto: "HTTP/1.1", ProtoMajor: 1, ProtoMinor: 1,
				Header: http.Header{"Content-Type": []string{"text/event-stream"}}, Body: io.NopCloser(strings.NewReader(a.Stream)), Request: r, ContentLength: -1}, nil
		})
		cl := &sse.Client{
			HTTPClient: &http.Client{Transport: rt},
			Backoff:    sse.Backoff{InitialInterval: time.Millisecond, Multiplier: 2, Jitter: sc.Jitter, MaxRetries: sc.MaxRetries, MaxElapsedTime: time.Duration(sc.MaxElapsed)},
		}
		nretry := 0
		cl.OnRetry = func(error, time.Duration) { nretry++ }
		conn := cl.NewConnection(req)
		panicked := false
		conn.SubscribeToAll(func(e sse.Event) {
			obs.Events = append(obs.Events, obsEvent{strings.Clone(e.LastEventID), strings.Clone(e.Type), strings.Clone(e.Data)})
			if sc.PanicAt > 0 && !panicked && e.Data == "e"+strconv.Itoa(sc.PanicAt) {
				panicked = true
				panic("callback panics")
			}
		})
		if sc.DelayBefore > 0 {
			time.Sleep(time.Duration(sc.DelayBefore))
		}
		for call = 0; call < len(sc.Calls); call++ {
			inCall, nretry = 0, 0
			var ret error
			func() {
				defer func() {
					if p := recover(); p != nil {
						if p != "callback panics" {
							panic(p)
						}
						ret = errAgainPanic
					}
				}()
				ret = conn.Connect()
			}()
			obs.Rets = append(obs.Rets, ret)
			obs.Retries = append(obs.Retries, nretry)
			if obs.Runaway {
				break
			}
			if sc.Gap > 0 {
				time.Sleep(time.Duration(sc.Gap))
			}
		}
	})
	return obs
}

// judgeAgain: the model of the whole life of the connection.
func judgeAgain(sc *agScript, obs *agObs) (out []jv) {
	if obs.Panic != "" {
		return []jv{jvf([]string{"panic_or_deadlock", "ret"}, "reconnect-by-hand scenario panicked / deadlocked: %s", obs.Panic)}
	}
	if obs.Runaway {
		return []jv{jvf([]string{"connect_runaway", "attempts"}, "a Connect call made more than 64 attempts with MaxRetries %d", sc.MaxRetries)}
	}
	lastID := ""
	ri := 0 // next request expected
	var wantEvents []obsEvent
	bodyHas := sc.Body == "bytes" || sc.Body == "noget" || sc.Body == "closeonce" || strings.HasPrefix(sc.Body, "getfail_once:")
	panicSeen := false
	failJ, getCalls := 0, 0
	fmt.Sscanf(sc.Body, "getfail_once:%d", &failJ)
	for ci := range sc.Calls {
		if ci >= len(obs.Rets) {
			break
		}
		ret := obs.Rets[ci]
		count, ai := 0, 0
		var lastKind string
		var lastReq int
		noGet, getFailed, callPanicked := false, false, false
		for {
			if ri > 0 && sc.Body == "noget" {
				noGet = true
				break
			}
			if ri > 0 && failJ > 0 {
				// every request after the first needs a body from GetBody
				getCalls++
				if getCalls == failJ {
					getFailed = true
					break
				}
			}
			if ri >= len(obs.Reqs) || obs.Reqs[ri].Call != ci {
				out = append(out, jvf([]string{"attempts"}, "Connect call %d made %d attempts, the backoff policy (MaxRetries %d) prescribes more", ci+1, ai, sc.MaxRetries))
				return out
			}
			q := obs.Reqs[ri]
			// header
			if ri == 0 || lastID == "" {
				if q.HasHeader {
					out = append(out, jvf([]string{"header"}, "request %d (call %d, attempt %d) carries Last-Event-ID %q, want none", ri+1, ci+1, ai+1, q.Header))
				}
			} else if !q.HasHeader || len(q.Header) != 1 || q.Header[0] != lastID {
				out = append(out, jvf([]string{"header"}, "request %d (call %d, attempt %d) carries Last-Event-ID %q (present=%v), want %q", ri+1, ci+1, ai+1, q.Header, q.HasHeader, lastID))
			}
			if bodyHas && (q.Body != cBodyText || q.BodyErr != "") {
				out = append(out, jvf([]string{"body"}, "request %d (call %d, attempt %d) has body %q (err %q), want the original %q", ri+1, ci+1, ai+1, q.Body, q.BodyErr, cBodyText))
			}
			a := agAttempt{Kind: "terr"}
			if ai < len(sc.Calls[ci]) {
				a = sc.Calls[ci][ai]
			}
			lastReq = ri
			if a.Kind == "stream" {
				so := interpretAttempt(cAttempt{Kind: "stream", Stream: a.Stream, End: "eof", CancelAtOff: -1}, lastID)
				if sc.PanicAt > 0 && !panicSeen {
					for j, e := range so.Events {
						if e.Data == "e"+strconv.Itoa(sc.PanicAt) {
							// the callback panics on this event: it was dispatched (its ID counts), nothing after it is
							panicSeen, callPanicked = true, true
							wantEvents = append(wantEvents, so.Events[:j+1]...)
							lastID = e.ID
							break
						}
					}
					if callPanicked {
						ri++
						ai++
						break
					}
				}
				wantEvents = append(wantEvents, so.Events...)
				lastID = so.LastID
				if strings.Contains(lastID, "\x00") {
					lastID = "" // cannot happen: interpretAttempt ignores such IDs
				}
				lastKind = so.EndKind
				count = 0
			} else {
				lastKind = "terr"
			}
			ri++
			ai++
			if sc.MaxRetries < 0 || count == sc.MaxRetries {
				break
			}
			count++
		}
		if ri < len(obs.Reqs) && obs.Reqs[ri].Call == ci {
			n := 0
			for k := ri; k < len(obs.Reqs) && obs.Reqs[k].Call == ci; k++ {
				n++
			}
			out = append(out, jvf([]string{"attempts"}, "Connect call %d made %d attempts more than the backoff policy (MaxRetries %d) allows", ci+1, n, sc.MaxRetries))
			return out
		}
		var ce *sse.ConnectionError
		switch {
		case callPanicked && ret == errAgainPanic:
		case ret == nil:
			out = append(out, jvf([]string{"ret"}, "Connect call %d returned nil", ci+1))
		case !errors.As(ret, &ce):
			out = append(out, jvf([]string{"ret"}, "Connect call %d returned %v (%T), not a *ConnectionError", ci+1, ret, ret))
		case callPanicked:
			if ret != errAgainPanic {
				out = append(out, jvf([]string{"ret"}, "Connect call %d: the callback panicked but Connect returned %v", ci+1, ret))
			}
		case getFailed:
			if !errors.Is(ret, errGetBody) {
				out = append(out, jvf([]string{"nogetbody"}, "Connect call %d: GetBody failed but Connect returned %v", ci+1, ret))
			}
		case noGet:
			if !errors.Is(ret, sse.ErrNoGetBody) {
				out = append(out, jvf([]string{"nogetbody"}, "Connect call %d: the body cannot be re-obtained but Connect returned %v", ci+1, ret))
			}
		case lastKind == "terr":
			if !errors.Is(ret, obs.TErrs[lastReq]) {
				out = append(out, jvf([]string{"ret"}, "Connect call %d returned %v, want the last attempt's transport error %v", ci+1, ret, obs.TErrs[lastReq]))
			}
		case lastKind == "ueof":
			if !errors.Is(ret, sse.ErrUnexpectedEOF) {
				out = append(out, jvf([]string{"ret"}, "Connect call %d returned %v, want ErrUnexpectedEOF (the last stream ended in mid-line)", ci+1, ret))
			}
		default:
			if !errors.Is(ret, io.EOF) || errors.Is(ret, sse.ErrUnexpectedEOF) {
				out = append(out, jvf([]string{"ret"}, "Connect call %d returned %v, want io.EOF (the last stream ended cleanly)", ci+1, ret))
			}
		}
		if !noGet && !getFailed && !callPanicked && ci < len(obs.Retries) && obs.Retries[ci] != ai-1 {
			out = append(out, jvf([]string{"onretry"}, "Connect call %d: OnRetry called %d times for %d attempts", ci+1, obs.Retries[ci], ai))
		}
	}
	if ri < len(obs.Reqs) {
		out = append(out, jvf([]string{"attempts"}, "%d requests were sent that the model does not expect", len(obs.Reqs)-ri))
	}
	if !eqEvents(wantEvents, obs.Events) {
		out = append(out, jvf([]string{"events"}, "events dispatched over all calls: got %v, want %v", fmtEvents(obs.Events), fmtEvents(wantEvents)))
	}
	return out
}

func agGenStream(rng *rand.Rand, k *int) string {
	var b strings.Builder
	n := rng.IntN(4)
	for i := 0; i < n; i++ {
		*k++
		switch rng.IntN(6) {
		case 0:
			fmt.Fprintf(&b, "data: e%d\n\n", *k) // no id: keeps the previous one
		case 1:
			fmt.Fprintf(&b, "id: nul\x00%d\ndata: e%d\n\n", *k, *k) // ignored ID
		case 2:
			fmt.Fprintf(&b, "id\ndata: e%d\n\n", *k) // resets the ID
		default:
			fmt.Fprintf(&b, "id: i%d\ndata: e%d\n\n", *k, *k)
		}
	}
	switch rng.IntN(4) {
	case 0:
		fmt.Fprintf(&b, "id: pending%d\ndata: part", *k) // cut off before dispatch
	case 1:
		fmt.Fprintf(&b, "id: pending%d\n", *k) // id line complete, event not dispatched ... at a clean end it is
	}
	return b.String()
}

func againPhase(t *testing.T, r *fw.Run, prop string, n int, keep map[string]bool) {
	for i := 0; i < n; i++ {
		if !r.Mine("R", i) {
			continue
		}
		key := fw.Key("R", i)
		rng := r.Rand("R", i)
		sc := &agScript{MaxRetries: []int{-1, 1, 2, 3}[rng.IntN(4)], Jitter: []float64{-1, 0.5}[rng.IntN(2)], Body: []string{"nil", "nobody", "bytes", "bytes", "noget", "closeonce", "closeonce", "getfail_once:1", "getfail_once:2", "getfail_once:3"}[rng.IntN(10)]}
		if rng.IntN(3) == 0 {
			// a generous budget that no scripted wait comes near, and a pause before the first Connect
			sc.MaxElapsed = int64(10 * time.Second)
			sc.DelayBefore = int64(time.Minute)
		}
		if rng.IntN(3) == 0 {
			sc.Gap = int64(time.Duration(1+rng.IntN(120)) * time.Second)
		}
		ev := 0
		ncalls := 1 + rng.IntN(4)
		for c := 0; c < ncalls; c++ {
			var call []agAttempt
			na := rng.IntN(4)
			for a := 0; a < na; a++ {
				if rng.IntN(2) == 0 {
					call = append(call, agAttempt{Kind: "terr"})
				} else {
					call = append(call, agAttempt{Kind: "stream", Stream: agGenStream(rng, &ev)})
				}
			}
			sc.Calls = append(sc.Calls, call)
		}
		if ev > 0 && rng.IntN(4) == 0 {
			sc.PanicAt = 1 + rng.IntN(ev)
		}
		r.Begin(key, fmt.Sprintf("%+v", *sc))
		obs := runAgain(t, sc)
		r.Count("reconnect_by_hand_scenarios", 1)
		r.Count("connect_calls", int64(len(obs.Rets)))
		r.Count("attempts_observed", int64(len(obs.Reqs)))
		var fs []jv
		for _, f := range judgeAgain(sc, obs) {
			for _, tg := range f.Tags {
				if keep[tg] || tg == "panic_or_deadlock" || tg == "connect_runaway" {
					fs = append(fs, f)
					break
				}
			}
		}
		r.Eval(fw.Hash("R", fmt.Sprintf("%+v", *sc)), len(obs.Rets) >= 2)
		if len(fs) > 0 {
			tags := []string{}
			var msgs []string
			for _, f := range fs {
				tags = append(tags, f.Tags...)
				msgs = append(msgs, f.Msg)
			}
			var reqs []string
			for k, q := range obs.Reqs {
				reqs = append(reqs, fmt.Sprintf("#%d call=%d kind=%s Last-Event-ID=%q present=%v body=%q", k+1, q.Call+1, q.Kind, q.Header, q.HasHeader, q.Body))
			}
			var rets []string
			for _, e := range obs.Rets {
				rets = append(rets, fmt.Sprint(e))
			}
			r.Violation(key, tags, map[string]any{"script": sc, "requests_observed": reqs, "connect_returned": rets, "onretry_per_call": obs.Retries, "events": fmtEvents(obs.Events), "findings": msgs}, "%s: %s (+%d more)", prop, fs[0].Msg, len(fs)-1)
		}
	}
}
