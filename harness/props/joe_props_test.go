package props

import (
	"context"
	"encoding/json"
	"fmt"
	"math/rand/v2"
	"runtime"
	"strconv"
	"sync"
	"sync/atomic"
	"testing"
	"time"

	sse "github.com/tmaxmax/go-sse"

	"verifharness/mon"

	"verifharness/fw"
)

// ---- scenario generator ------------------------------------------------------------------

type jGen struct {
	BadIDs         bool
	EmptyTopics    bool
	ShutdownPairs  bool
	ClientFaults   bool
	Cancels        bool
	CancelOnFail   bool
	ReplayerFaults bool
	PanicFaults    bool
	MidShutdown    bool
	Resume         bool
	Replayers      []string
	MaxSubs        int
	MaxPubs        int
	MaxMsgs        int
	Latency        bool
	LateSubscribe  bool
	// MinPrefix: at least this many (up to twice as many) messages are published before anything else
	MinPrefix int
	// Tweak, if set, adjusts the generated scenario
	Tweak func(*rand.Rand, *jScenario)
}

var jTopicUniverse = []string{"a", "b", "c", ""}

// jBigUniverse: 24 topics; scenarios that use it publish messages to up to 16 topics and
// subscribe to up to 12.
var jBigUniverse = func() []string {
	u := []string{"a", "b", "c", ""}
	for i := 0; i < 20; i++ {
		u = append(u, "topic-"+strconv.Itoa(i))
	}
	return u
}()

var jUseBig bool

// jSepUniverse: topic names that contain what an implementation might use as a separator or key
// delimiter, next to the lists they could be confused with ("a,b" vs {"a","b"})
var jSepUniverse = []string{"a", "b", "a,b", "b,a", "a b", "a\x00b", "a|b", ""}

var jUseSep bool

func pickTopics(rng *rand.Rand, max int) []string {
	u := jTopicUniverse
	if jUseSep {
		u = jSepUniverse
	}
	if jUseBig {
		u = jBigUniverse
		max *= 5
	}
	n := 1 + rng.IntN(max)
	if n > len(u) {
		n = len(u)
	}
	perm := rng.Perm(len(u))
	out := make([]string, 0, n)
	for _, i := range perm[:n] {
		out = append(out, u[i])
	}
	if rng.IntN(8) == 0 {
		// the same topic twice in a row (a topic list is not a set)
		k := rng.IntN(len(out))
		out = append(out[:k+1], out[k:]...)
	}
	return out
}

func genJoe(rng *rand.Rand, g jGen) *jScenario {
	sc := &jScenario{Probe: true}
	jUseBig = rng.IntN(6) == 0
	jUseSep = !jUseBig && rng.IntN(6) == 0
	defer func() { jUseBig, jUseSep = false, false }()
	if rng.IntN(2) == 0 {
		sc.ErrKind = mon.ErrKinds[rng.IntN(len(mon.ErrKinds))]
	}
	sc.Replayer = g.Replayers[rng.IntN(len(g.Replayers))]
	tok := 0
	next := func() string { tok++; return "m" + strconv.Itoa(tok) }
	capN := 0
	if len(sc.Replayer) > 7 && sc.Replayer[:7] == "finite:" {
		fmt.Sscanf(sc.Replayer, "finite:%d:", &capN)
	}
	if g.Resume {
		h := rng.IntN(3*max(capN, 3) + 2)
		if g.MinPrefix > 0 {
			h = g.MinPrefix + rng.IntN(g.MinPrefix)
		}
		for i := 0; i < h; i++ {
			sc.Prefix = append(sc.Prefix, jMsg{Token: next(), Topics: pickTopics(rng, 2)})
		}
		if sc.manualIDs() && sc.Replayer != "rec" && sc.Replayer != "none" && h > 2 && rng.IntN(4) == 0 {
			sc.Prefix[rng.IntN(h-1)].EmptyID = true // an ID that is set but empty
		}
		if g.BadIDs && h > 1 && rng.IntN(3) == 0 {
			// a rejected publish in the middle of the prefix (it must not consume an automatic ID)
			k := 1 + rng.IntN(h-1)
			sc.Prefix = append(sc.Prefix[:k], append([]jMsg{{Token: next(), Topics: pickTopics(rng, 2), BadID: true}}, sc.Prefix[k:]...)...)
		}
		if len(sc.Replayer) > 6 && sc.Replayer[:6] == "valid:" && rng.IntN(5) == 0 {
			sc.ValidTTL = 1<<63 - 1 // "keep forever"
		} else if len(sc.Replayer) > 6 && sc.Replayer[:6] == "valid:" && rng.IntN(2) == 0 {
			// a short TTL and gaps between the prefix publishes: older events expire, Put-triggered
			// collections run, the ring grows, wraps and shrinks
			sc.ValidTTL = int64(200 + rng.IntN(1800))
			h2 := rng.IntN(14)
			for i := h; i < h+h2; i++ {
				sc.Prefix = append(sc.Prefix, jMsg{Token: next(), Topics: pickTopics(rng, 2)})
			}
			for range sc.Prefix {
				g := int64(0)
				switch rng.IntN(4) {
				case 0:
					g = int64(rng.IntN(int(sc.ValidTTL)))
				case 1:
					g = int64(rng.IntN(int(sc.ValidTTL)/4 + 1))
				}
				sc.PrefixGaps = append(sc.PrefixGaps, g)
			}
		}
	}
	nsubs := 1 + rng.IntN(g.MaxSubs)
	for i := 0; i < nsubs; i++ {
		s := jSub{Name: "s" + strconv.Itoa(i), Topics: pickTopics(rng, 3), StartAt: int64(rng.IntN(60)), CancelAt: -1}
		if g.EmptyTopics && rng.IntN(12) == 0 {
			s.Topics = nil // matches nothing
		}
		if g.LateSubscribe && rng.IntN(3) == 0 {
			s.StartAt = int64(rng.IntN(600))
		}
		if g.Latency && rng.IntN(3) == 0 {
			s.SendLatency = int64(1 + rng.IntN(25))
			if rng.IntN(12) == 0 {
				s.SendLatency = int64(2 * time.Second) // a stalled client: longer than any timeout a provider might use
			}
		}
		if g.Cancels && rng.IntN(3) == 0 {
			s.CancelAt = int64(rng.IntN(700))
		}
		if g.ClientFaults && rng.IntN(2) == 0 {
			if rng.IntN(3) == 0 {
				s.FailFlushAt = 1 + rng.IntN(4)
			} else {
				s.FailSendAt = 1 + rng.IntN(4)
			}
			if g.CancelOnFail && rng.IntN(2) == 0 {
				s.CancelOnFail = true
			}
		}
		if g.Resume && len(sc.Prefix) > 0 && rng.IntN(5) > 0 {
			var valid []jMsg
			for _, pm := range sc.Prefix {
				if !pm.BadID {
					valid = append(valid, pm)
				}
			}
			h := len(valid)
			idOf := func(i int) string {
				if sc.autoIDs() {
					return strconv.Itoa(i)
				}
				if valid[i].EmptyID {
					return ""
				}
				return "id-" + valid[i].Token
			}
			lo := 0
			if capN > 0 && h > capN {
				lo = h - capN
			}
			emptyAt := -1
			for k := lo; k < h; k++ {
				if valid[k].EmptyID {
					emptyAt = k
				}
			}
			switch c := rng.IntN(10); {
			case emptyAt >= 0 && c < 4:
				s.LastID, s.LastIDSet, s.LastIDClass = "", true, "middle"
			case c < 2:
				s.LastID, s.LastIDSet, s.LastIDClass = idOf(lo), true, "oldest"
			case c < 5:
				s.LastID, s.LastIDSet, s.LastIDClass = idOf(lo+rng.IntN(h-lo)), true, "middle"
			case c < 7:
				s.LastID, s.LastIDSet, s.LastIDClass = idOf(h-1), true, "newest"
			case c < 8 && lo > 0:
				s.LastID, s.LastIDSet, s.LastIDClass = idOf(rng.IntN(lo)), true, "evicted"
			case c < 9:
				if sc.autoIDs() {
					s.LastID = []string{strconv.Itoa(h + 100 + rng.IntN(5)), "-1", "+1", "-0", "18446744073709551615", "9223372036854775808", "abc", "1.0"}[rng.IntN(8)]
				} else {
					s.LastID = "never-" + strconv.Itoa(rng.IntN(5))
				}
				s.LastIDSet, s.LastIDClass = true, "never_issued"
			default:
				s.LastIDClass = "unset"
			}
		}
		if i > 0 && rng.IntN(5) == 0 {
			// the application builds this topic list by appending to the previous subscriber's
			// (two views of different length of one array when there is room)
			prev := sc.Subs[i-1].Topics
			if len(prev) > 0 {
				extra := pickTopics(rng, 1)[0]
				s.Topics = append(append([]string{}, prev...), extra)
				s.AliasPrev = true
			}
		}
		sc.Subs = append(sc.Subs, s)
	}
	npubs := 1 + rng.IntN(g.MaxPubs)
	for i := 0; i < npubs; i++ {
		p := jPub{StartAt: int64(rng.IntN(500)), Gap: int64(rng.IntN(40))}
		if rng.IntN(3) == 0 {
			p.StartAt = int64(rng.IntN(70)) // races with the subscriptions
		}
		nm := 1 + rng.IntN(g.MaxMsgs)
		for k := 0; k < nm; k++ {
			m := jMsg{Token: next(), Topics: pickTopics(rng, 3)}
			if g.BadIDs && sc.Replayer != "none" && sc.Replayer != "rec" && rng.IntN(8) == 0 {
				m.BadID = true
			}
			p.Msgs = append(p.Msgs, m)
		}
		sc.Pubs = append(sc.Pubs, p)
	}
	if g.MidShutdown && rng.IntN(3) == 0 {
		// the caller of Shutdown may stop waiting early (a context that is done already, or a short deadline)
		ctxKind := []string{"bg", "bg", "cancelled", "deadline:5", "deadline:60", "cancelled_cause"}[rng.IntN(6)]
		sc.Shutdowns = append(sc.Shutdowns, jShutdown{At: int64(rng.IntN(700)), Ctx: ctxKind})
		if g.ShutdownPairs && rng.IntN(2) == 0 {
			sc.Shutdowns = append(sc.Shutdowns, jShutdown{At: sc.Shutdowns[0].At, Ctx: "bg"}, jShutdown{At: sc.Shutdowns[0].At, Ctx: "cancelled"})
		}
	}
	if g.Latency && sc.Replayer != "none" && rng.IntN(4) == 0 {
		sc.PutLatency = int64(1 + rng.IntN(40))
		if rng.IntN(2) == 0 {
			sc.ReplayLatency = int64(1 + rng.IntN(60))
		}
	}
	if g.ReplayerFaults && sc.Replayer != "none" && rng.IntN(2) == 0 {
		kind := "err"
		if g.PanicFaults && rng.IntN(2) == 0 {
			kind = []string{"panic", "panic_err"}[rng.IntN(2)]
		}
		if rng.IntN(2) == 0 {
			sc.PutFault = map[int]string{1 + len(sc.Prefix) + rng.IntN(tok-len(sc.Prefix)+1): kind}
		} else {
			sc.ReplayFault = map[int]string{1 + rng.IntN(nsubs): kind}
		}
		if kind == "err" && rng.IntN(3) == 0 {
			if sc.PutFault == nil {
				sc.PutFault = map[int]string{}
			}
			sc.PutFault[1+len(sc.Prefix)+rng.IntN(tok-len(sc.Prefix)+1)] = "err"
		}
	}
	if sc.Replayer != "none" && rng.IntN(4) == 0 {
		sc.ValRep = true
	}
	if g.Tweak != nil {
		g.Tweak(rng, sc)
	}
	return sc
}

// schedules returns the hook policies a scenario is executed under.
func jSchedules(rng *rand.Rand, baselineCalls int, nRandom int, nNth int, targeted []map[string]int64) []jHook {
	hs := []jHook{{Kind: "none"}}
	for i := 0; i < nRandom; i++ {
		hs = append(hs, jHook{Kind: "random", P: []float64{0.2, 0.5, 0.8}[rng.IntN(3)], Dmax: []int64{5, 40, 200}[rng.IntN(3)], Seed: rng.Uint64()})
	}
	for _, f := range targeted {
		hs = append(hs, jHook{Kind: "fixed", Fixed: f})
	}
	if baselineCalls > 0 {
		for i := 0; i < nNth; i++ {
			n := uint64(1 + rng.IntN(baselineCalls))
			h := jHook{Kind: "none", Nth: map[uint64]int64{n: int64(50 + rng.IntN(400))}}
			if rng.IntN(3) == 0 {
				h.Nth[uint64(1+rng.IntN(baselineCalls))] = int64(50 + rng.IntN(400))
			}
			hs = append(hs, h)
		}
	}
	return hs
}

var jTargeted = []map[string]int64{
	{"sub.ctxdone": 60},
	{"loop.errsent": 60},
	{"sub.ctxdone": 30, "loop.errsent": 60},
	{"sub.accepted": 80, "loop.replayed": 40},
	{"loop.replayed": 120},
	{"pub.accepted": 90},
	{"loop.put": 70, "loop.sent": 35},
	{"shutdown.closed": 100},
	{"loop.msg": 50, "loop.sub": 50, "loop.unsub": 50},
	{"loop.done": 150, "close.sub": 40},
}

type jWitness struct {
	Scenario *jScenario     `json:"scenario"`
	Hook     jHook          `json:"hook"`
	Findings []string       `json:"findings"`
	Subs     map[string]any `json:"subscribers"`
	Pubs     []string       `json:"publishes"`
	Shutdown []string       `json:"shutdowns"`
	Log      []string       `json:"replayer_log"`
	Stacks   string         `json:"stacks,omitempty"`
}

func jMakeWitness(sc *jScenario, tr *jTrace, fs []jv) jWitness {
	w := jWitness{Scenario: sc, Hook: sc.Hook, Subs: map[string]any{}, Stacks: tr.Stacks}
	for _, f := range fs {
		w.Findings = append(w.Findings, f.Msg)
	}
	for _, st := range tr.Subs {
		var calls []string
		for _, c := range st.Calls {
			e := ""
			if c.Err {
				e = " FAILED"
			}
			if c.Op == "send" {
				calls = append(calls, fmt.Sprintf("@%d send(%s id=%q)%s", c.Start, c.Token, c.ID, e))
			} else {
				calls = append(calls, fmt.Sprintf("@%d flush%s", c.Start, e))
			}
		}
		w.Subs[st.Spec.Name] = map[string]any{"call": st.CallStamp, "ret": st.RetStamp, "returned": st.Returned, "result": fmt.Sprint(st.Ret), "cancel_stamp": st.CancelStamp.Load(), "calls": calls}
	}
	for _, p := range tr.Pubs {
		w.Pubs = append(w.Pubs, fmt.Sprintf("Publish(%s,%v) pub=%d call@%d ret@%d returned=%v -> %v", p.Msg.Token, p.Msg.Topics, p.Publisher, p.CallStamp, p.RetStamp, p.Returned, p.Ret))
	}
	for _, s := range tr.Shutdowns {
		w.Shutdown = append(w.Shutdown, fmt.Sprintf("Shutdown(%s) call@%d ret@%d returned=%v -> %v", s.Spec.Ctx, s.CallStamp, s.RetStamp, s.Returned, s.Ret))
	}
	for _, e := range tr.Log {
		if e.Kind == "put" {
			w.Log = append(w.Log, fmt.Sprintf("@%d Put(%s,%v) -> id=%q err=%v %s", e.Start, e.Token, e.Topics, e.ID, e.Err, e.Fault))
		} else {
			w.Log = append(w.Log, fmt.Sprintf("@%d..%d Replay(%s id=%q) -> err=%v %s", e.Start, e.End, e.Sub, e.ID, e.Err, e.Fault))
		}
	}
	return w
}

// jRunAll runs one scenario under all its schedules and applies the oracles.
func jRunAll(t *testing.T, r *fw.Run, key string, sc *jScenario, scheds []jHook, oracles func(*jScenario, *jTrace) []jv, sigs map[uint64]struct{}) {
	desc, _ := json.Marshal(sc)
	for si, h := range scheds {
		sc.Hook = h
		r.Begin(key, fmt.Sprintf("sched=%d %s", si, desc))
		tr := runJoe(t, sc)
		r.Count("executions", 1)
		r.Count("hook_points_hit", int64(tr.HookCalls))
		sends := 0
		for _, st := range tr.Subs {
			sends += len(st.Calls)
		}
		r.Count("client_calls_observed", int64(sends))
		r.Count("replayer_calls_observed", int64(len(tr.Log)))
		for p, n := range tr.Points {
			r.Count("point_"+p, int64(n))
		}
		sigs[tr.HookSig] = struct{}{}
		fs := oracleDeadlock(tr)
		if len(fs) == 0 {
			fs = oracles(sc, tr)
		}
		if len(fs) > 0 {
			tags := map[string]bool{}
			for _, f := range fs {
				for _, tg := range f.Tags {
					tags[tg] = true
				}
			}
			var tl []string
			for tg := range tags {
				tl = append(tl, tg)
			}
			r.Violation(key, tl, jMakeWitness(sc, tr, fs), "%s: %s (+%d more findings) [schedule %d: %s]", r.Prop, fs[0].Msg, len(fs)-1, si, h.Kind)
		}
		r.Eval(fw.Hash(string(desc), fmt.Sprint(tr.HookSig)), len(tr.Pubs) > 1 && len(tr.Subs) > 0)
	}
}

func jBaselineCalls(t *testing.T, sc *jScenario) int {
	sc.Hook = jHook{Kind: "none"}
	tr := runJoe(t, sc)
	return tr.HookCalls
}

var jProcs = []int{1, 2, 4, 16}

func jLoop(t *testing.T, r *fw.Run, phase string, n int, g jGen, nRandom, nNth int, targeted []map[string]int64, oracles func(*jScenario, *jTrace) []jv) {
	sigs := map[uint64]struct{}{}
	for i := 0; i < n; i++ {
		if !r.Mine(phase, i) {
			continue
		}
		key := fw.Key(phase, i)
		rng := r.Rand(phase, i)
		sc := genJoe(rng, g)
		sc.Procs = jProcs[i%len(jProcs)]
		base := 0
		if nNth > 0 {
			base = jBaselineCalls(t, sc)
		}
		var tg []map[string]int64
		if len(targeted) > 0 {
			// two targeted placements per scenario, rotating
			tg = append(tg, targeted[i%len(targeted)], targeted[(i/len(targeted)+i+1)%len(targeted)])
		}
		jRunAll(t, r, key, sc, jSchedules(rng, base, nRandom, nNth, tg), oracles, sigs)
		if i < 48 {
			r.Sample("scenario", 2, sc)
		}
	}
	r.Count("interleaving_signatures_distinct_in_batch", int64(len(sigs)))
}

// ---- C03 -----------------------------------------------------------------------------------

func TestC03(t *testing.T) {
	r := fw.Start(t, "C03")
	defer r.Finish()
	c03Large(t, r)
	g := jGen{Cancels: true, ClientFaults: true, MidShutdown: true, EmptyTopics: true, BadIDs: true, Replayers: []string{"rec", "rec", "finite:4:auto", "valid:manual", "none"}, MaxSubs: 5, MaxPubs: 4, MaxMsgs: 6, Latency: true, LateSubscribe: true}
	jLoop(t, r, "S", r.N(4000, 60000), g, 4, 5, jTargeted, func(sc *jScenario, tr *jTrace) []jv {
		out := oracleDelivery(sc, tr, false)
		out = append(out, oracleFlush(tr)...)
		out = append(out, oraclePublishReturns(tr)...)
		// "never to any other subscriber": a subscriber whose Subscribe has returned is not registered any more
		for _, f := range oracleSubscriberSafety(sc, tr) {
			for _, tg := range f.Tags {
				if tg == "call_after_subscribe_returned" || tg == "concurrent_calls_on_client" {
					out = append(out, f)
				}
			}
		}
		return out
	})
	// subscribers that resume: what a replay sends counts as sent — flushed before Joe is idle again
	// (a subscriber whose replay ends on a message of another topic, and who gets nothing live afterwards)
	gr := jGen{Resume: true, BadIDs: true, Replayers: []string{"finite:3:auto", "finite:4:manual", "finite:7:auto", "valid:auto", "valid:manual"}, MaxSubs: 3, MaxPubs: 3, MaxMsgs: 5, Latency: true}
	jLoop(t, r, "R", r.N(1200, 20000), gr, 3, 3, []map[string]int64{{"loop.replayed": 120}, {"loop.sub": 60, "loop.msg": 30}}, func(sc *jScenario, tr *jTrace) []jv {
		return append(oracleDelivery(sc, tr, true), oracleFlush(tr)...)
	})
}

// TestC03 also runs a few large scenarios (tens of subscribers, hundreds of messages).
func c03Large(t *testing.T, r *fw.Run) {
	n := r.N(32, 600)
	sigs := map[uint64]struct{}{}
	for i := 0; i < n; i++ {
		if !r.Mine("L", i) {
			continue
		}
		key := fw.Key("L", i)
		rng := r.Rand("L", i)
		g := jGen{Cancels: true, ClientFaults: true, EmptyTopics: true, Replayers: []string{"rec", "finite:300:auto", "valid:manual"}, MaxSubs: 40, MaxPubs: 5, MaxMsgs: 80, Latency: true, LateSubscribe: true}
		sc := genJoe(rng, g)
		sc.Procs = jProcs[i%len(jProcs)]
		jRunAll(t, r, key, sc, []jHook{{Kind: "none"}, {Kind: "random", P: 0.3, Dmax: 20, Seed: rng.Uint64()}}, func(sc *jScenario, tr *jTrace) []jv {
			out := oracleDelivery(sc, tr, false)
			out = append(out, oracleFlush(tr)...)
			out = append(out, oraclePublishReturns(tr)...)
			return out
		}, sigs)
		r.Count("large_scenarios", 1)
	}
}

// ---- C04 -----------------------------------------------------------------------------------

func TestC04(t *testing.T) {
	r := fw.Start(t, "C04")
	defer r.Finish()
	g := jGen{Resume: true, BadIDs: true, Replayers: []string{"finite:2:auto", "finite:2:manual", "finite:3:auto", "finite:3:manual", "finite:4:manual", "finite:7:auto", "valid:auto", "valid:manual"}, MaxSubs: 3, MaxPubs: 3, MaxMsgs: 5, Latency: true}
	jLoop(t, r, "S", r.N(4000, 60000), g, 3, 4, []map[string]int64{{"loop.replayed": 120}, {"loop.sub": 60, "loop.msg": 30}, {"loop.put": 70}, {"sub.accepted": 80, "pub.accepted": 40}}, func(sc *jScenario, tr *jTrace) []jv {
		// the Sends of a replay are Sends like any other: flushed before Joe is idle again
		return append(oracleDelivery(sc, tr, true), oracleFlush(tr)...)
	})
}

// ---- C06 -----------------------------------------------------------------------------------

func TestC06(t *testing.T) {
	r := fw.Start(t, "C06")
	defer r.Finish()
	g := jGen{ClientFaults: true, Cancels: true, CancelOnFail: true, ReplayerFaults: true, MidShutdown: true, ShutdownPairs: true, Resume: true, Replayers: []string{"rec", "rec", "finite:3:manual", "finite:4:auto", "valid:manual", "valid:auto", "none"}, MaxSubs: 4, MaxPubs: 3, MaxMsgs: 5, Latency: true, LateSubscribe: true}
	jLoop(t, r, "S", r.N(4000, 60000), g, 4, 6, jTargeted, func(sc *jScenario, tr *jTrace) []jv {
		return oracleSubscriberSafety(sc, tr)
	})
	// many subscribers (more than any batch size an implementation might use inside a round)
	gl := g
	gl.MaxSubs, gl.MaxMsgs, gl.Resume = 140, 12, false
	jLoop(t, r, "L", r.N(64, 1200), gl, 2, 2, []map[string]int64{{"loop.sent": 3}, {"loop.errsent": 20, "sub.ctxdone": 10}}, func(sc *jScenario, tr *jTrace) []jv {
		return oracleSubscriberSafety(sc, tr)
	})
	// real goroutines, real parallelism
	runtime.GOMAXPROCS(16)
	nr := r.N(20000, 400000)
	for i := 0; i < nr; i++ {
		if !r.Mine("R", i) {
			continue
		}
		key := fw.Key("R", i)
		if i%64 == 0 {
			r.Begin(key, "real-goroutine stress")
		}
		c06RealStress(r, key, r.Rand("R", i))
		r.Eval(fw.Hash("R", strconv.Itoa(i)), true)
	}
}

// c06RealStress runs Joe with real goroutines and real parallelism (no bubble, no virtual time):
// windows that contain no yield point (e.g. two Shutdown calls racing between a check and a close)
// are only reachable this way. Oracles: the process survives, no MessageWriter call is stamped
// after its Subscribe returned, failing subscribers get their own error, everything returns.
func c06RealStress(r *fw.Run, key string, rng *rand.Rand) {
	var hc atomic.Uint64
	sse.SetVerifHook(func(string) {
		if hc.Add(1)%3 == 0 {
			runtime.Gosched()
		}
	})
	defer sse.SetVerifHook(nil)
	clock := &mon.Clock{}
	joe := &sse.Joe{}
	if rng.IntN(2) == 0 {
		rp, _ := sse.NewFiniteReplayer(4, true)
		joe.Replayer = rp
	}
	type subState struct {
		cl       *mon.RecClient
		ret      error
		retStamp int64
		failErr  error
	}
	nsub := 1 + rng.IntN(4)
	subs := make([]*subState, nsub)
	var wg sync.WaitGroup
	start := make(chan struct{})
	for i := range subs {
		st := &subState{cl: &mon.RecClient{Name: "s" + strconv.Itoa(i), Clock: clock}}
		subs[i] = st
		ctx, cancel := context.WithCancel(context.Background())
		mode := rng.IntN(4)
		if mode >= 1 {
			st.cl.FailSendAt = 1 + rng.IntN(3)
			if mode == 3 {
				st.cl.FailSendAt = 0
				st.cl.FailFlushAt = 1 + rng.IntN(3)
			}
			st.failErr = &mon.InjectedError{Where: "client:" + st.cl.Name, N: i}
			st.cl.Err = st.failErr
			if mode != 1 {
				st.cl.OnCall = func(op string, n int, failing bool) {
					if failing {
						cancel() // what net/http does on a write error
					}
				}
			}
		}
		cancelLate := rng.IntN(3) == 0
		wg.Add(1)
		go func() {
			defer wg.Done()
			defer cancel()
			<-start
			st.ret = joe.Subscribe(ctx, sse.Subscription{Client: st.cl, Topics: []string{"t"}})
			st.retStamp = clock.Tick()
		}()
		if cancelLate {
			wg.Add(1)
			go func() {
				defer wg.Done()
				<-start
				for k := 0; k < 20; k++ {
					runtime.Gosched()
				}
				cancel()
			}()
		}
	}
	npub := 1 + rng.IntN(3)
	for p := 0; p < npub; p++ {
		wg.Add(1)
		go func() {
			defer wg.Done()
			<-start
			for k := 0; k < 6; k++ {
				m := &sse.Message{}
				m.AppendData("x")
				joe.Publish(m, []string{"t"})
			}
		}()
	}
	nsd := 1 + rng.IntN(3)
	for p := 0; p < nsd; p++ {
		wg.Add(1)
		go func() {
			defer wg.Done()
			<-start
			for k := 0; k < 10+p*7; k++ {
				runtime.Gosched()
			}
			joe.Shutdown(context.Background())
		}()
	}
	close(start)
	done := make(chan struct{})
	go func() { wg.Wait(); close(done) }()
	select {
	case <-done:
	case <-time.After(20 * time.Second):
		r.Count("inconclusive_watchdog", 1)
		return
	}
	r.Count("real_goroutine_runs", 1)
	for _, st := range subs {
		calls := st.cl.Calls()
		r.Count("client_calls_observed", int64(len(calls)))
		for _, c := range calls {
			if c.Start > st.retStamp {
				r.Violation(key, []string{"call_after_subscribe_returned", "real_goroutines"}, map[string]any{"subscriber": st.cl.Name}, "C06: %s started after Subscribe had returned (real goroutines)", c.Op)
				break
			}
		}
		if st.cl.Overlaps > 0 {
			r.Violation(key, []string{"concurrent_calls_on_client", "real_goroutines"}, nil, "C06: overlapping calls on one MessageWriter")
		}
		if fi := clientFailure(calls); fi >= 0 && st.ret != st.failErr {
			r.Violation(key, []string{"subscribe_return_wrong", "own_error_lost", "real_goroutines"}, map[string]any{"subscriber": st.cl.Name, "returned": fmt.Sprint(st.ret)}, "C06: subscriber's own %s failed but Subscribe returned %v (real goroutines)", calls[fi].Op, st.ret)
		} else if fi < 0 && st.ret != nil && !(st.ret == sse.ErrProviderClosed) {
			r.Violation(key, []string{"subscribe_return_wrong", "real_goroutines"}, nil, "C06: Subscribe returned %v without any failure", st.ret)
		}
	}
}

// ---- C07 -----------------------------------------------------------------------------------

func genC07(rng *rand.Rand, g jGen) *jScenario {
	sc := genJoe(rng, g)
	sc.Shutdowns = nil
	ns := 1 + rng.IntN(3)
	for i := 0; i < ns; i++ {
		sd := jShutdown{At: int64(rng.IntN(500)), Ctx: "bg"}
		switch rng.IntN(7) {
		case 0:
			sd.Ctx = "cancelled"
		case 1:
			sd.Ctx = "deadline:" + strconv.Itoa(1+rng.IntN(60))
		case 2:
			sd.Ctx = "cancelled_cause"
		case 3:
			sd.Ctx = "deadline_cause:" + strconv.Itoa(1+rng.IntN(60))
		}
		if i > 0 && rng.IntN(2) == 0 {
			sd.At = sc.Shutdowns[0].At // concurrent shutdowns
		}
		sc.Shutdowns = append(sc.Shutdowns, sd)
	}
	if rng.IntN(8) == 0 {
		sc.ZeroJoeShutdownFirst = true
	}
	// some operations deliberately after the shutdown
	if rng.IntN(2) == 0 {
		sc.Subs = append(sc.Subs, jSub{Name: "late", Topics: []string{"a"}, StartAt: 800 + int64(rng.IntN(100)), CancelAt: -1})
		sc.Pubs = append(sc.Pubs, jPub{StartAt: 800 + int64(rng.IntN(100)), Msgs: []jMsg{{Token: "late1", Topics: []string{"a"}}, {Token: "late2", Topics: nil}}})
	}
	return sc
}

func TestC07(t *testing.T) {
	r := fw.Start(t, "C07")
	defer r.Finish()
	g := jGen{ClientFaults: true, Cancels: true, ReplayerFaults: true, Replayers: []string{"rec", "rec", "none", "finite:3:auto"}, MaxSubs: 4, MaxPubs: 3, MaxMsgs: 4, Latency: true, LateSubscribe: true}
	sigs := map[uint64]struct{}{}
	n := r.N(4000, 60000)
	for i := 0; i < n; i++ {
		if !r.Mine("S", i) {
			continue
		}
		key := fw.Key("S", i)
		rng := r.Rand("S", i)
		sc := genC07(rng, g)
		sc.Procs = jProcs[i%len(jProcs)]
		base := jBaselineCalls(t, sc)
		tg := []map[string]int64{jTargeted[i%len(jTargeted)], {"shutdown.closed": 100, "sub.accepted": 50}, {"loop.done": 150, "pub.accepted": 60}}
		jRunAll(t, r, key, sc, jSchedules(rng, base, 3, 4, tg), func(sc *jScenario, tr *jTrace) []jv {
			return oracleReturns(sc, tr)
		}, sigs)
		if i < 48 {
			r.Sample("scenario", 2, sc)
		}
	}
	r.Count("interleaving_signatures_distinct_in_batch", int64(len(sigs)))
	// many subscribers, Shutdown in the middle of delivery rounds
	nl := r.N(64, 1200)
	gl := g
	gl.MaxSubs, gl.MaxMsgs = 140, 10
	for i := 0; i < nl; i++ {
		if !r.Mine("L", i) {
			continue
		}
		key := fw.Key("L", i)
		rng := r.Rand("L", i)
		sc := genC07(rng, gl)
		for k := range sc.Shutdowns {
			sc.Shutdowns[k].At = int64(100 + rng.IntN(500))
		}
		sc.Procs = jProcs[i%len(jProcs)]
		jRunAll(t, r, key, sc, jSchedules(rng, 0, 2, 0, []map[string]int64{{"loop.sent": 2}}), func(sc *jScenario, tr *jTrace) []jv {
			return oracleReturns(sc, tr)
		}, sigs)
	}
}

// ---- C17 -----------------------------------------------------------------------------------

func TestC17(t *testing.T) {
	r := fw.Start(t, "C17")
	defer r.Finish()
	g := jGen{ClientFaults: true, Cancels: true, ReplayerFaults: true, PanicFaults: true, Resume: true, BadIDs: true, MidShutdown: true, Replayers: []string{"rec", "rec", "finite:4:manual", "finite:3:auto", "valid:manual", "valid:auto"}, MaxSubs: 5, MaxPubs: 3, MaxMsgs: 5, Latency: true, LateSubscribe: true}
	jLoop(t, r, "S", r.N(4000, 60000), g, 3, 4, []map[string]int64{{"loop.errsent": 60}, {"loop.sent": 35, "loop.put": 20}, {"loop.replayed": 100}}, func(sc *jScenario, tr *jTrace) []jv {
		out := oracleDelivery(sc, tr, false)
		out = append(out, oraclePublishReturns(tr)...)
		out = append(out, oracleReplayerDisabled(tr)...)
		// the failing subscribers get their own error
		out = append(out, oracleSubscriberSafety(sc, tr)...)
		return out
	})
	// long replays: hundreds of stored messages replayed to resuming subscribers whose Send or Flush
	// fails somewhere along the way, next to healthy ones
	gl := jGen{ClientFaults: true, Resume: true, Replayers: []string{"finite:300:manual", "finite:500:auto", "valid:manual", "valid:auto"}, MaxSubs: 6, MaxPubs: 2, MaxMsgs: 6, MinPrefix: 200, LateSubscribe: true}
	gl.Tweak = func(rng *rand.Rand, sc *jScenario) {
		// one subscriber takes (nearly) the whole backlog and fails at a late call of it
		var first *jMsg
		lo := 0
		var capN int
		if n, _ := fmt.Sscanf(sc.Replayer, "finite:%d:", &capN); n == 1 && len(sc.Prefix) > capN {
			lo = len(sc.Prefix) - capN
		}
		for k := lo; k < len(sc.Prefix); k++ {
			if !sc.Prefix[k].BadID {
				first = &sc.Prefix[k]
				break
			}
		}
		if first == nil {
			return
		}
		s := &sc.Subs[rng.IntN(len(sc.Subs))]
		s.Topics = []string{"a", "b", "c", ""}
		s.AliasPrev = false
		if sc.autoIDs() {
			s.LastID = strconv.Itoa(lo)
		} else {
			s.LastID = "id-" + first.Token
		}
		s.LastIDSet, s.LastIDClass = true, "oldest"
		s.FailSendAt, s.FailFlushAt = 0, 0
		if rng.IntN(2) == 0 {
			s.FailFlushAt = 1 + rng.IntN(2)
		} else {
			s.FailSendAt = 2 + rng.IntN(len(sc.Prefix)-lo)
		}
	}
	jLoop(t, r, "L", r.N(48, 800), gl, 2, 2, []map[string]int64{{"loop.replayed": 100}, {"loop.sent": 5}}, func(sc *jScenario, tr *jTrace) []jv {
		out := oracleDelivery(sc, tr, false)
		out = append(out, oraclePublishReturns(tr)...)
		out = append(out, oracleSubscriberSafety(sc, tr)...)
		return out
	})
}
