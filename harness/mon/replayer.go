package mon

import (
	"strconv"
	"sync"
	"time"

	sse "github.com/tmaxmax/go-sse"
)

// RLog is one call Joe made on the replayer. Joe calls the replayer only from its
// single loop goroutine, so the order of this log is Joe's serialisation order of
// publishes and subscriptions, observed at the Replayer boundary.
type RLog struct {
	Kind    string // "put" | "replay"
	Token   string // put: payload token
	Topics  []string
	ID      string // put: ID of the message returned by Put (or of the argument if Put failed)
	IDSet   bool
	Sub     string // replay: subscriber name
	Err     error  // error returned to Joe (nil on panic)
	Fault   string // "", "err", "panic"
	Start   int64
	End     int64
	ArgIDIn string    // put: ID of the argument as given
	VTime   time.Time // time.Now() at the start of the call (virtual inside a synctest bubble)
}

// RecReplayer wraps a real replayer (or nothing) and records / faults the calls.
type RecReplayer struct {
	Inner sse.Replayer
	Clock *Clock
	// PutFault / ReplayFault: 1-based call index -> "err" | "panic".
	PutFault    map[int]string
	ReplayFault map[int]string
	// OnReplay, if set, is called inside Replay before delegating (virtual latency etc.).
	OnReplay func(sub string)
	// ErrKind / WrapTargets select the flavour of injected errors (see NewInjected).
	ErrKind     string
	WrapTargets map[string]error
	// PutLatency / ReplayLatency: time slept inside the call (virtual inside a bubble), so that
	// other operations can land while Joe is inside the replayer.
	PutLatency    time.Duration
	ReplayLatency time.Duration

	mu      sync.Mutex
	log     []RLog
	puts    int
	replays int
}

func (r *RecReplayer) tick() int64 {
	if r.Clock != nil {
		return r.Clock.Tick()
	}
	return 0
}

// Put implements sse.Replayer.
func (r *RecReplayer) Put(m *sse.Message, topics []string) (rout *sse.Message, rerr error) {
	start := r.tick()
	r.mu.Lock()
	r.puts++
	n := r.puts
	r.mu.Unlock()
	e := RLog{Kind: "put", Token: Token(m), Topics: append([]string(nil), topics...), Start: start, ArgIDIn: m.ID.String(), VTime: time.Now()}
	fault := r.PutFault[n]
	e.Fault = fault
	if r.PutLatency > 0 {
		time.Sleep(r.PutLatency)
		e.VTime = time.Now() // the instant the wrapped replayer sees
	}
	var out, ghost *sse.Message
	var err error
	switch fault {
	case "panic":
		e.End = r.tick()
		r.append(e)
		panic("injected replayer panic in Put")
	case "panic_err":
		e.End = r.tick()
		r.append(e)
		var nilMap map[string]int
		nilMap["x"] = 1 // runtime error: a panic that carries an error value
	case "err":
		err = NewInjected("put", n, r.ErrKind, r.WrapTargets)
		if n%2 == 0 {
			// a replayer that hands back a copy of its own together with the error (it stamped an ID and
			// then failed to store the message): what is delivered is still the published message
			ghost = m.Clone()
			ghost.ID = sse.ID("ghost-" + strconv.Itoa(n))
		}
	default:
		if r.Inner != nil {
			out, err = r.Inner.Put(m, topics)
		} else if n%3 == 0 {
			out = nil // "nothing to add": (nil, nil) is a legal answer of a Replayer that keeps the message as it is
		} else {
			out = m
		}
	}
	defer func() {
		if ghost != nil {
			rout = ghost
		}
	}()
	if out != nil {
		e.ID, e.IDSet = out.ID.String(), out.ID.IsSet()
	} else {
		e.ID, e.IDSet = m.ID.String(), m.ID.IsSet()
	}
	e.Err = err
	e.End = r.tick()
	r.append(e)
	return out, err
}

// Replay implements sse.Replayer.
func (r *RecReplayer) Replay(sub sse.Subscription) error {
	start := r.tick()
	r.mu.Lock()
	r.replays++
	n := r.replays
	r.mu.Unlock()
	name := "?"
	if c, ok := sub.Client.(*RecClient); ok {
		name = c.Name
	} else if n, ok := sub.Client.(interface{ ClientName() string }); ok {
		name = n.ClientName() // a wrapper around a RecClient
	}
	e := RLog{Kind: "replay", Sub: name, Start: start, ID: sub.LastEventID.String(), IDSet: sub.LastEventID.IsSet(), Topics: append([]string(nil), sub.Topics...), VTime: time.Now()}
	fault := r.ReplayFault[n]
	e.Fault = fault
	if r.OnReplay != nil {
		r.OnReplay(name)
	}
	if r.ReplayLatency > 0 {
		time.Sleep(r.ReplayLatency)
	}
	e.VTime = time.Now() // the instant the wrapped replayer sees
	var err error
	switch fault {
	case "panic":
		e.End = r.tick()
		r.append(e)
		panic("injected replayer panic in Replay")
	case "panic_err":
		e.End = r.tick()
		r.append(e)
		panic(&InjectedError{Where: "replay-panic", N: n})
	case "err":
		err = NewInjected("replay", n, r.ErrKind, r.WrapTargets)
	default:
		if r.Inner != nil {
			err = r.Inner.Replay(sub)
		}
	}
	e.Err = err
	e.End = r.tick()
	r.append(e)
	return err
}

func (r *RecReplayer) append(e RLog) {
	r.mu.Lock()
	r.log = append(r.log, e)
	r.mu.Unlock()
}

// Log returns a copy of the call log.
func (r *RecReplayer) Log() []RLog {
	r.mu.Lock()
	defer r.mu.Unlock()
	return append([]RLog(nil), r.log...)
}
