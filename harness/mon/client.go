package mon

import (
	"reflect"
	"strings"
	"sync"
	"sync/atomic"
	"time"
	"unsafe"

	sse "github.com/tmaxmax/go-sse"
)

// Clock is the logical clock shared by all recorders of one scenario: a counter that
// is incremented at every recorded boundary event, so that "A returned before B was
// called" can be decided without wall-clock time.
type Clock struct{ n atomic.Int64 }

// Tick returns the next stamp.
func (c *Clock) Tick() int64 { return c.n.Add(1) }

// Now returns the current stamp without advancing.
func (c *Clock) Now() int64 { return c.n.Load() }

// Call is one recorded MessageWriter call.
type Call struct {
	Op    string // "send" | "flush"
	Token string // payload token of the message (first data line), for sends
	ID    string // message ID as seen by the subscriber
	IDSet bool
	Start int64
	End   int64
	Err   bool
}

// Token extracts the payload token (the first data line) from a message without
// retaining the message.
func Token(m *sse.Message) string {
	if m == nil {
		return "<nil>"
	}
	s := m.String()
	for _, l := range strings.Split(s, "\n") {
		if strings.HasPrefix(l, "data: ") {
			return l[len("data: "):]
		}
	}
	// a message without data (a heartbeat / checkpoint): the token is its first comment
	for _, l := range strings.Split(s, "\n") {
		if strings.HasPrefix(l, ": ") {
			return l[len(": "):]
		}
	}
	return ""
}

// ShapeMsg gives a message carrying the token one of several shapes, chosen by the token itself:
// data only (most), a comment before the data, a type, a retry value, or a comment and nothing else.
func ShapeMsg(m *sse.Message, token string) {
	h := 0
	for _, c := range []byte(token) {
		h = h*31 + int(c)
	}
	switch h % 7 {
	case 0:
		m.AppendComment(token) // comment-only
	case 1:
		m.AppendComment("note")
		m.AppendData(token)
	case 2:
		m.AppendData(token)
		m.Type = sse.Type("ty")
	case 3:
		m.AppendData(token)
		m.Retry = 1500 * time.Millisecond
	default:
		m.AppendData(token)
	}
}

// RecClient is a recording MessageWriter with scripted failures. It keeps no
// reference to the messages it is given.
type RecClient struct {
	Name  string
	Clock *Clock
	// FailSendAt / FailFlushAt: 1-based index of the Send / Flush call that fails (0 = never).
	FailSendAt  int
	FailFlushAt int
	Err         error
	// OnCall, if set, runs inside every call before it is recorded as finished
	// (used to cancel contexts from within a failing call, or to add virtual latency).
	OnCall func(op string, n int, failing bool)

	mu       sync.Mutex
	calls    []Call
	sends    int
	flushes  int
	inCall   int32
	Overlaps int32
}

func (c *RecClient) tick() int64 {
	if c.Clock != nil {
		return c.Clock.Tick()
	}
	return 0
}

// Send implements sse.MessageWriter.
func (c *RecClient) Send(m *sse.Message) error {
	if atomic.AddInt32(&c.inCall, 1) != 1 {
		atomic.AddInt32(&c.Overlaps, 1)
	}
	defer atomic.AddInt32(&c.inCall, -1)
	start := c.tick()
	c.mu.Lock()
	c.sends++
	n := c.sends
	c.mu.Unlock()
	failing := c.FailSendAt != 0 && n == c.FailSendAt
	call := Call{Op: "send", Start: start, Err: failing}
	if m != nil {
		call.Token = Token(m)
		call.ID = m.ID.String()
		call.IDSet = m.ID.IsSet()
	} else {
		call.Token = "<nil>"
	}
	if c.OnCall != nil {
		c.OnCall("send", n, failing)
	}
	call.End = c.tick()
	c.mu.Lock()
	c.calls = append(c.calls, call)
	c.mu.Unlock()
	if failing {
		return c.Err
	}
	return nil
}

// Flush implements sse.MessageWriter.
func (c *RecClient) Flush() error {
	if atomic.AddInt32(&c.inCall, 1) != 1 {
		atomic.AddInt32(&c.Overlaps, 1)
	}
	defer atomic.AddInt32(&c.inCall, -1)
	start := c.tick()
	c.mu.Lock()
	c.flushes++
	n := c.flushes
	c.mu.Unlock()
	failing := c.FailFlushAt != 0 && n == c.FailFlushAt
	if c.OnCall != nil {
		c.OnCall("flush", n, failing)
	}
	call := Call{Op: "flush", Start: start, End: c.tick(), Err: failing}
	c.mu.Lock()
	c.calls = append(c.calls, call)
	c.mu.Unlock()
	if failing {
		return c.Err
	}
	return nil
}

// InCall reports whether a Send or Flush is executing right now.
func (c *RecClient) InCall() bool { return atomic.LoadInt32(&c.inCall) != 0 }

// Calls returns a copy of the call log.
func (c *RecClient) Calls() []Call {
	c.mu.Lock()
	defer c.mu.Unlock()
	return append([]Call(nil), c.calls...)
}

// Reset clears the log and counters (not the failure script).
func (c *RecClient) Reset() {
	c.mu.Lock()
	c.calls, c.sends, c.flushes = nil, 0, 0
	c.mu.Unlock()
}

// SendTokens returns the tokens of the successful and failed sends in order.
func SendTokens(calls []Call) []string {
	var out []string
	for _, c := range calls {
		if c.Op == "send" {
			out = append(out, c.Token)
		}
	}
	return out
}

// Shape is the ring-buffer shape of a replayer read through reflection; OK is false
// when the fields could not be found (renamed), in which case the probe degrades.
type Shape struct {
	OK                      bool
	Head, Tail, Count, Cap  int
	NonNilOutsideLiveRegion int
}

// ProbeShape reads queue.{head,tail,count,len(buf)} of a FiniteReplayer/ValidReplayer
// and counts populated slots outside the live range.
func ProbeShape(replayer any) (s Shape) {
	defer func() {
		if recover() != nil {
			s = Shape{}
		}
	}()
	v := reflect.ValueOf(replayer)
	if v.Kind() == reflect.Pointer {
		v = v.Elem()
	}
	var q reflect.Value
	for _, name := range []string{"buf", "messages"} {
		f := v.FieldByName(name)
		if f.IsValid() && f.Kind() == reflect.Struct {
			q = f
			break
		}
	}
	if !q.IsValid() {
		return Shape{}
	}
	buf := q.FieldByName("buf")
	head, tail, count := q.FieldByName("head"), q.FieldByName("tail"), q.FieldByName("count")
	if !buf.IsValid() || !head.IsValid() || !tail.IsValid() || !count.IsValid() {
		return Shape{}
	}
	s = Shape{OK: true, Head: int(head.Int()), Tail: int(tail.Int()), Count: int(count.Int()), Cap: buf.Len()}
	live := map[int]bool{}
	for i := 0; i < s.Count && s.Cap > 0; i++ {
		live[(s.Head+i)%s.Cap] = true
	}
	for i := 0; i < s.Cap; i++ {
		el := buf.Index(i)
		mf := el.FieldByName("message")
		if !mf.IsValid() {
			// messageWithTopicsAndExpiry embeds messageWithTopics
			emb := el.FieldByName("messageWithTopics")
			if emb.IsValid() {
				mf = emb.FieldByName("message")
			}
		}
		if mf.IsValid() && mf.Kind() == reflect.Pointer && !mf.IsNil() && !live[i] {
			s.NonNilOutsideLiveRegion++
		}
	}
	return s
}

// SetAutoIDCounter moves the automatic-ID counter of a FiniteReplayer/ValidReplayer to next, so
// that histories can cross interesting values (9 -> 10 digits, 2^31, 2^32, 2^63) without
// billions of Puts. It must be called before the first Put. It writes the unexported counter
// through reflect + unsafe (harness only); it reports false, and changes nothing, if the field
// cannot be found (renamed), in which case callers simply start from 0.
func SetAutoIDCounter(replayer any, next uint64) (ok bool) {
	defer func() {
		if recover() != nil {
			ok = false
		}
	}()
	v := reflect.ValueOf(replayer)
	if v.Kind() != reflect.Pointer {
		return false
	}
	f := v.Elem().FieldByName("currentID")
	if !f.IsValid() || f.Kind() != reflect.Pointer || f.IsNil() {
		return false
	}
	// whatever integer type the counter has: the move is made only when the value fits it
	tgt := reflect.NewAt(f.Type().Elem(), unsafe.Pointer(f.Pointer())).Elem()
	switch tgt.Kind() {
	case reflect.Uint, reflect.Uint8, reflect.Uint16, reflect.Uint32, reflect.Uint64, reflect.Uintptr:
		if tgt.OverflowUint(next) {
			return false
		}
		tgt.SetUint(next)
	case reflect.Int, reflect.Int8, reflect.Int16, reflect.Int32, reflect.Int64:
		if next > 1<<63-1 || tgt.OverflowInt(int64(next)) {
			return false
		}
		tgt.SetInt(int64(next))
	default:
		return false
	}
	return true
}
