// Package mon holds the recording / fault-injecting doubles and the monitors
// that sit on go-sse's public seams.
package mon

import (
	"io"
	"sort"
	"sync/atomic"
)

// ChunkReader delivers Data in a prescribed segmentation and counts what was pulled.
type ChunkReader struct {
	Data string
	// Cuts are the offsets (0 < c < len(Data)) after which a Read returns.
	Cuts []int
	// EOFWithLast makes the Read that delivers the final bytes return (n, EndErr|io.EOF)
	// in the same call.
	EOFWithLast bool
	// ZeroEvery > 0 inserts a (0, nil) read before every ZeroEvery-th data read.
	ZeroEvery int
	// EndErr is returned instead of io.EOF once Data is exhausted (nil = io.EOF).
	EndErr error
	// OnRead, if set, is called at the start of every Read with the call index (0-based)
	// and the current offset; if it returns a non-nil error, Read returns (0, err)
	// from then on.
	OnRead func(call, off int) error
	// Endless, if set, makes the reader repeat Data forever up to HardCap bytes.
	Endless bool
	HardCap int

	pos      int
	cutIdx   int
	calls    int
	dataRd   int
	stickErr error
	zeroTurn bool
	pulled   atomic.Int64
	hitCap   bool
	afterEnd int
}

// Pulled is the number of bytes handed out so far.
func (c *ChunkReader) Pulled() int { return int(c.pulled.Load()) }

// Calls is the number of Read calls so far.
func (c *ChunkReader) Calls() int { return c.calls }

// HitCap reports whether an endless reader reached its hard cap.
func (c *ChunkReader) HitCap() bool { return c.hitCap }

// ReadsAfterEnd is the number of Read calls made after the terminal error was returned.
func (c *ChunkReader) ReadsAfterEnd() int { return c.afterEnd }

func (c *ChunkReader) Read(p []byte) (int, error) {
	call := c.calls
	c.calls++
	if c.stickErr != nil {
		c.afterEnd++
		return 0, c.stickErr
	}
	if c.OnRead != nil {
		if err := c.OnRead(call, c.pos); err != nil {
			c.stickErr = err
			return 0, err
		}
	}
	if len(p) == 0 {
		return 0, nil
	}
	if c.Endless {
		if c.pos >= c.HardCap {
			c.hitCap = true
			c.stickErr = io.EOF
			return 0, io.EOF
		}
		n := 0
		limit := len(p)
		if len(c.Cuts) > 0 && c.Cuts[0] < limit {
			limit = c.Cuts[0]
		}
		for n < limit && c.pos < c.HardCap {
			p[n] = c.Data[c.pos%len(c.Data)]
			n++
			c.pos++
		}
		c.pulled.Add(int64(n))
		return n, nil
	}
	end := c.EndErr
	if end == nil {
		end = io.EOF
	}
	if c.pos >= len(c.Data) {
		c.stickErr = end
		return 0, end
	}
	if c.ZeroEvery > 0 {
		if !c.zeroTurn && c.dataRd%c.ZeroEvery == c.ZeroEvery-1 {
			c.zeroTurn = true
			return 0, nil
		}
		c.zeroTurn = false
	}
	for c.cutIdx < len(c.Cuts) && c.Cuts[c.cutIdx] <= c.pos {
		c.cutIdx++
	}
	stop := len(c.Data)
	if c.cutIdx < len(c.Cuts) {
		stop = c.Cuts[c.cutIdx]
	}
	n := copy(p, c.Data[c.pos:stop])
	c.pos += n
	c.dataRd++
	c.pulled.Add(int64(n))
	if c.pos >= len(c.Data) && c.EOFWithLast {
		c.stickErr = end
		return n, end
	}
	return n, nil
}

// EveryByte returns the cut list that delivers one byte per Read.
func EveryByte(n int) []int {
	cuts := make([]int, 0, n)
	for i := 1; i < n; i++ {
		cuts = append(cuts, i)
	}
	return cuts
}

// Every returns cuts every k bytes.
func Every(n, k int) []int {
	var cuts []int
	for i := k; i < n; i += k {
		cuts = append(cuts, i)
	}
	return cuts
}

// NormCuts sorts and deduplicates cuts and drops the ones out of (0, n).
func NormCuts(cuts []int, n int) []int {
	sort.Ints(cuts)
	out := cuts[:0]
	last := 0
	for _, c := range cuts {
		if c > last && c < n {
			out = append(out, c)
			last = c
		}
	}
	return out
}
