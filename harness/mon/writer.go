package mon

import (
	"bytes"
	"fmt"
)

// FaultWriter is an io.Writer that accepts everything until call FailAt (0-based),
// where it accepts min(Accept, len(p)) bytes and returns Err. It respects the
// io.Writer contract (n < len(p) only together with a non-nil error) and records
// every call.
type FaultWriter struct {
	FailAt int // -1: never
	Accept int // bytes accepted by the failing call (-1: all of them)
	Err    error

	Buf        bytes.Buffer
	Calls      int
	CallSizes  []int
	Failed     bool
	AfterFail  int // Write calls made after the failure
	AcceptedAt int // bytes accepted in total
	// TookByteYetFailed: the failing call came through WriteByte and took its byte
	TookByteYetFailed bool
}

func (w *FaultWriter) Write(p []byte) (int, error) {
	k := w.Calls
	w.Calls++
	if w.Failed {
		w.AfterFail++
		return 0, w.Err
	}
	w.CallSizes = append(w.CallSizes, len(p))
	if w.FailAt >= 0 && k == w.FailAt {
		n := w.Accept
		if n < 0 || n > len(p) {
			n = len(p)
		}
		w.Buf.Write(p[:n])
		w.AcceptedAt += n
		w.Failed = true
		return n, w.Err
	}
	w.Buf.Write(p)
	w.AcceptedAt += len(p)
	return len(p), nil
}

// writeByte / writeString: the optional fast paths an encoder may look for on its writer; each is
// one call of the underlying FaultWriter.
func (w *FaultWriter) writeByte(c byte) error {
	n, err := w.Write([]byte{c})
	if err != nil && n == 1 {
		// WriteByte has no count to report: a caller cannot know that the byte was taken
		w.TookByteYetFailed = true
	}
	return err
}

// FaultByteWriter is a FaultWriter that also implements io.ByteWriter.
type FaultByteWriter struct{ *FaultWriter }

func (w FaultByteWriter) WriteByte(c byte) error { return w.writeByte(c) }

// FaultStringWriter is a FaultWriter that also implements io.StringWriter.
type FaultStringWriter struct{ *FaultWriter }

func (w FaultStringWriter) WriteString(s string) (int, error) { return w.Write([]byte(s)) }

// FaultBothWriter implements io.ByteWriter and io.StringWriter.
type FaultBothWriter struct{ *FaultWriter }

func (w FaultBothWriter) WriteByte(c byte) error            { return w.writeByte(c) }
func (w FaultBothWriter) WriteString(s string) (int, error) { return w.Write([]byte(s)) }

// InjectedError is the error type used by all fault-injecting doubles, so that
// monitors can recognise their own errors with errors.Is / ==.
type InjectedError struct {
	Where string
	N     int
	// Timeoutish makes the error look like a network timeout (Timeout() and Temporary() true).
	Timeoutish bool
	// Wraps, if set, is returned by Unwrap: the injected failure then "is" that error for
	// errors.Is (context.Canceled, io.EOF, sse.ErrNoTopic ...) while remaining a failure of its own.
	Wraps error
}

func (e *InjectedError) Error() string {
	s := fmt.Sprintf("injected failure at %s #%d", e.Where, e.N)
	if e.Timeoutish {
		s += " (i/o timeout)"
	}
	if e.Wraps != nil {
		s += ": " + e.Wraps.Error()
	}
	return s
}
func (e *InjectedError) Timeout() bool   { return e.Timeoutish }
func (e *InjectedError) Temporary() bool { return e.Timeoutish }
func (e *InjectedError) Unwrap() error   { return e.Wraps }

// ErrKinds lists the flavours injected failures come in (index 0 = plain).
var ErrKinds = []string{"plain", "timeout", "wraps_canceled", "wraps_deadline", "wraps_eof", "wraps_no_topic", "wraps_provider_closed", "wraps_os_deadline", "wraps_not_supported"}

// NewInjected builds an injected error of the given kind.
func NewInjected(where string, n int, kind string, wrapTargets map[string]error) *InjectedError {
	e := &InjectedError{Where: where, N: n}
	switch kind {
	case "timeout":
		e.Timeoutish = true
	case "plain", "":
	default:
		e.Wraps = wrapTargets[kind]
	}
	return e
}
