package mon

import (
	"bytes"
	"net/http"
	"strings"
)

// RWLog is one call on the recording response writer.
type RWLog struct {
	Op   string // "header" | "writeheader" | "write" | "flush"
	N    int    // write: bytes accepted
	Len  int    // write: len(p)
	Err  bool
	CT   string // Content-Type values (joined) at the time of the call
	Code int
}

// CoreRW is the state shared by all response-writer shapes.
type CoreRW struct {
	Hdr  http.Header
	Log  []RWLog
	Body bytes.Buffer
	// FailAt: index among write+flush operations (0-based) that fails; -1 never.
	FailAt int
	// Accept: bytes accepted by a failing write (-1 all).
	Accept int
	Err    error
	// CanFailFlush: whether this shape can report a flush failure.
	CanFailFlush bool
	Code         int
	ops          int
	Failed       bool
}

// NewCoreRW creates the core with an empty header map.
func NewCoreRW() *CoreRW { return &CoreRW{Hdr: http.Header{}, FailAt: -1, Accept: -1} }

func (c *CoreRW) ct() string { return strings.Join(c.Hdr["Content-Type"], ",") }

func (c *CoreRW) Header() http.Header {
	c.Log = append(c.Log, RWLog{Op: "header", CT: c.ct()})
	return c.Hdr
}

func (c *CoreRW) WriteHeader(code int) {
	c.Code = code
	c.Log = append(c.Log, RWLog{Op: "writeheader", Code: code, CT: c.ct()})
}

func (c *CoreRW) Write(p []byte) (int, error) {
	k := c.ops
	c.ops++
	if c.FailAt >= 0 && k == c.FailAt {
		n := c.Accept
		if n < 0 || n > len(p) {
			n = len(p)
		}
		c.Body.Write(p[:n])
		c.Failed = true
		c.Log = append(c.Log, RWLog{Op: "write", N: n, Len: len(p), Err: true, CT: c.ct()})
		return n, c.Err
	}
	c.Body.Write(p)
	c.Log = append(c.Log, RWLog{Op: "write", N: len(p), Len: len(p), CT: c.ct()})
	return len(p), nil
}

func (c *CoreRW) flush() error {
	k := c.ops
	c.ops++
	if c.CanFailFlush && c.FailAt >= 0 && k == c.FailAt {
		c.Failed = true
		c.Log = append(c.Log, RWLog{Op: "flush", Err: true, CT: c.ct()})
		return c.Err
	}
	c.Log = append(c.Log, RWLog{Op: "flush", CT: c.ct()})
	return nil
}

// Ops is the number of write+flush operations so far.
func (c *CoreRW) Ops() int { return c.ops }

// RWFlusher has Flush().
type RWFlusher struct{ *CoreRW }

func (w RWFlusher) Flush() { w.flush() }

// RWFlushError has FlushError() error.
type RWFlushError struct{ *CoreRW }

func (w RWFlushError) FlushError() error { return w.flush() }

// RWBoth has both Flush() and FlushError(), like net/http's own response type.
type RWBoth struct{ *CoreRW }

func (w RWBoth) Flush()            { w.flush() }
func (w RWBoth) FlushError() error { return w.flush() }

// RWNone cannot flush.
type RWNone struct{ C *CoreRW }

func (w RWNone) Header() http.Header         { return w.C.Header() }
func (w RWNone) Write(p []byte) (int, error) { return w.C.Write(p) }
func (w RWNone) WriteHeader(code int)        { w.C.WriteHeader(code) }

// RWUnwrap is a non-flushing wrapper that exposes the wrapped writer through Unwrap.
type RWUnwrap struct {
	Inner http.ResponseWriter
}

func (w RWUnwrap) Header() http.Header         { return w.Inner.Header() }
func (w RWUnwrap) Write(p []byte) (int, error) { return w.Inner.Write(p) }
func (w RWUnwrap) WriteHeader(code int)        { w.Inner.WriteHeader(code) }
func (w RWUnwrap) Unwrap() http.ResponseWriter { return w.Inner }

// MakeRW builds a response writer of the named shape around core. canFlush tells whether
// Upgrade is expected to succeed; the core's CanFailFlush is set accordingly.
func MakeRW(shape string, core *CoreRW) (w http.ResponseWriter, canFlush bool) {
	switch shape {
	case "flusher":
		return RWFlusher{core}, true
	case "flusherror":
		core.CanFailFlush = true
		return RWFlushError{core}, true
	case "both":
		core.CanFailFlush = true
		return RWBoth{core}, true
	case "none":
		return RWNone{core}, false
	case "unwrap-flusher":
		return RWUnwrap{RWFlusher{core}}, true
	case "unwrap-flusherror":
		core.CanFailFlush = true
		return RWUnwrap{RWFlushError{core}}, true
	case "unwrap2-both":
		core.CanFailFlush = true
		return RWUnwrap{RWUnwrap{RWBoth{core}}}, true
	case "unwrap-none":
		return RWUnwrap{RWNone{core}}, false
	case "unwrap12-flusherror":
		core.CanFailFlush = true
		var w http.ResponseWriter = RWFlushError{core}
		for i := 0; i < 12; i++ {
			w = RWUnwrap{w}
		}
		return w, true
	case "unwrap40-flusher":
		var w http.ResponseWriter = RWFlusher{core}
		for i := 0; i < 40; i++ {
			w = RWUnwrap{w}
		}
		return w, true
	}
	panic("unknown shape " + shape)
}

// RWShapes lists all shapes.
var RWShapes = []string{"flusher", "flusherror", "both", "none", "unwrap-flusher", "unwrap-flusherror", "unwrap2-both", "unwrap-none", "unwrap12-flusherror", "unwrap40-flusher"}
