module verifharness

go 1.26

require (
	github.com/anishathalye/porcupine v1.3.0
	github.com/tmaxmax/go-sse v0.0.0
)

replace github.com/tmaxmax/go-sse => /repo
