// Package ref holds the reference models the monitors compare go-sse against.
// Nothing in here imports go-sse: the interpreter is written from the WHATWG text
// (https://html.spec.whatwg.org/multipage/server-sent-events.html#event-stream-interpretation),
// byte-level, in one pass over the complete input.
package ref

import "strings"

const BOM = "\xEF\xBB\xBF"

// Event is one dispatched event.
type Event struct {
	ID   string // last event ID string at dispatch
	Type string // event type buffer as-is (never defaulted to "message")
	Data string
	// End is the offset just past the line terminator of the blank line that
	// dispatched the event, or len(input) for an event flushed at a clean end.
	End   int
	AtEOF bool
}

// Retry is one accepted retry field.
type Retry struct {
	Ms          int64
	EventsSoFar int // number of events dispatched before this field was processed
}

// Opts selects go-sse's documented adaptations.
type Opts struct {
	// Adapt: (1) dispatch when any of data/event/id(non-NUL) (Conn: also a valid retry) was
	// seen since the last dispatch; (3) at a clean end with a terminated last line a
	// pending seen-event is dispatched; an unterminated last line discards it and the end
	// is "unexpected EOF". With Adapt false this is the strict browser algorithm:
	// dispatch only with non-empty data buffer, pending data discarded at the end.
	Adapt bool
	// Conn: retry fields count as "seen" (Connection entry point).
	Conn bool
	// InitialID is the last event ID string the interpreter starts with.
	InitialID string
}

// Out is the interpretation of one complete stream.
type Out struct {
	Events        []Event
	UnexpectedEOF bool // Adapt only: the last line was not terminated
	Retries       []Retry
	// LastID is the last event ID string after the final dispatch (what a client
	// would send as Last-Event-ID on reconnect).
	LastID string
	// Lines is the number of terminated lines; Tail the length of the unterminated rest.
	Lines int
	Tail  int
}

func isDigits(s string) bool {
	if s == "" {
		return false
	}
	for i := 0; i < len(s); i++ {
		if s[i] < '0' || s[i] > '9' {
			return false
		}
	}
	return true
}

// ParseRetry returns the value of a spec-valid retry field (digits only). ok is
// false for anything else. Values that do not fit an int64 are reported !ok with
// overflow=true (valid per spec, not representable; callers do not judge them).
func ParseRetry(v string) (ms int64, ok bool, overflow bool) {
	if !isDigits(v) {
		return 0, false, false
	}
	var n int64
	for i := 0; i < len(v); i++ {
		d := int64(v[i] - '0')
		if n > (1<<63-1-d)/10 {
			return 0, false, true
		}
		n = n*10 + d
	}
	return n, true, false
}

// Interpret runs the event-stream interpretation over the whole input.
func Interpret(in string, o Opts) Out {
	out := Out{}
	lastID := o.InitialID // last event ID buffer
	committedID := o.InitialID
	var data strings.Builder
	typ := ""
	seen := false
	dataSeen := false

	pos := 0
	if strings.HasPrefix(in, BOM) {
		pos = len(BOM)
	}

	dispatch := func(end int, atEOF bool) {
		// Spec step 1: the last event ID string is set on every dispatch attempt.
		committed := lastID
		if o.Adapt {
			if !seen {
				return
			}
		} else {
			committedID = committed
			if data.Len() == 0 {
				typ = ""
				data.Reset()
				seen, dataSeen = false, false
				return
			}
		}
		committedID = committed
		d := data.String()
		if strings.HasSuffix(d, "\n") {
			d = d[:len(d)-1]
		}
		out.Events = append(out.Events, Event{ID: committed, Type: typ, Data: d, End: end, AtEOF: atEOF})
		data.Reset()
		typ = ""
		seen, dataSeen = false, false
	}
	_ = dataSeen

	for pos < len(in) {
		// find the end of the line
		i := pos
		for i < len(in) && in[i] != '\n' && in[i] != '\r' {
			i++
		}
		if i == len(in) {
			// unterminated rest
			out.Tail = len(in) - pos
			break
		}
		line := in[pos:i]
		next := i + 1
		if in[i] == '\r' && next < len(in) && in[next] == '\n' {
			next++
		}
		pos = next
		out.Lines++

		if line == "" {
			dispatch(pos, false)
			continue
		}
		if line[0] == ':' {
			continue
		}
		name, value := line, ""
		if c := strings.IndexByte(line, ':'); c >= 0 {
			name, value = line[:c], line[c+1:]
			if strings.HasPrefix(value, " ") {
				value = value[1:]
			}
		}
		switch name {
		case "event":
			typ = value
			seen = true
		case "data":
			data.WriteString(value)
			data.WriteByte('\n')
			seen, dataSeen = true, true
		case "id":
			if strings.IndexByte(value, 0) < 0 {
				lastID = value
				seen = true
			}
		case "retry":
			if ms, ok, _ := ParseRetry(value); ok {
				if o.Conn || !o.Adapt {
					out.Retries = append(out.Retries, Retry{Ms: ms, EventsSoFar: len(out.Events)})
				}
				if o.Conn {
					seen = true
				}
			}
		}
	}

	if o.Adapt {
		if out.Tail > 0 {
			out.UnexpectedEOF = true
		} else {
			dispatch(len(in), true)
		}
	}
	out.LastID = committedID
	return out
}

// Lines splits s at CRLF / CR / LF. A trailing terminator does not open an
// extra empty line; Lines("") is empty.
func Lines(s string) []string {
	var out []string
	for s != "" {
		i := 0
		for i < len(s) && s[i] != '\n' && s[i] != '\r' {
			i++
		}
		out = append(out, s[:i])
		if i == len(s) {
			break
		}
		n := i + 1
		if s[i] == '\r' && n < len(s) && s[n] == '\n' {
			n++
		}
		s = s[n:]
	}
	return out
}

// Line is one data or comment line of a model message.
type Line struct {
	Comment bool
	Text    string
}

// Msg is the model of a message built through the public API.
type Msg struct {
	HasID   bool
	ID      string
	HasType bool
	Type    string
	RetryMs int64 // whole milliseconds; <= 0 means no retry field
	Lines   []Line
}

// Clone deep-copies the model.
func (m *Msg) Clone() *Msg {
	c := *m
	c.Lines = append([]Line(nil), m.Lines...)
	return &c
}

// Append adds the lines of the given strings.
func (m *Msg) Append(comment bool, args ...string) {
	for _, a := range args {
		for _, l := range Lines(a) {
			m.Lines = append(m.Lines, Line{Comment: comment, Text: l})
		}
	}
}

// Empty reports whether the message has nothing to write.
func (m *Msg) Empty() bool {
	return !m.HasID && !m.HasType && m.RetryMs <= 0 && len(m.Lines) == 0
}

// DataLines returns the data lines.
func (m *Msg) DataLines() []string {
	var d []string
	for _, l := range m.Lines {
		if !l.Comment {
			d = append(d, l.Text)
		}
	}
	return d
}

// HasData reports whether there is at least one data line.
func (m *Msg) HasData() bool {
	for _, l := range m.Lines {
		if !l.Comment {
			return true
		}
	}
	return false
}

func itoa(n int64) string {
	if n == 0 {
		return "0"
	}
	var b [20]byte
	i := len(b)
	for n > 0 {
		i--
		b[i] = byte('0' + n%10)
		n /= 10
	}
	return string(b[i:])
}

// Encode is the wire text of the model: id, event, retry, then the lines in order,
// then one blank line; nothing at all for an empty message.
func (m *Msg) Encode() string {
	if m.Empty() {
		return ""
	}
	var b strings.Builder
	if m.HasID {
		b.WriteString("id: " + m.ID + "\n")
	}
	if m.HasType {
		b.WriteString("event: " + m.Type + "\n")
	}
	if m.RetryMs > 0 {
		b.WriteString("retry: " + itoa(m.RetryMs) + "\n")
	}
	for _, l := range m.Lines {
		if l.Comment {
			b.WriteString(": " + l.Text + "\n")
		} else {
			b.WriteString("data: " + l.Text + "\n")
		}
	}
	b.WriteString("\n")
	return b.String()
}

// DecodeMsg reads the first message block of a wire text back into a model: the fields and
// the ordered data / comment lines, as a spec-conforming line parser sees them (field name up
// to the first colon, one leading space of the value dropped, a line starting with a colon is
// a comment). It returns the model and the number of bytes consumed (up to and including the
// blank line). ok is false if the text does not contain a complete block.
func DecodeMsg(wire string) (m *Msg, n int, ok bool) {
	m = &Msg{}
	pos := 0
	for pos < len(wire) {
		i := pos
		for i < len(wire) && wire[i] != '\n' && wire[i] != '\r' {
			i++
		}
		if i == len(wire) {
			return m, pos, false
		}
		line := wire[pos:i]
		next := i + 1
		if wire[i] == '\r' && next < len(wire) && wire[next] == '\n' {
			next++
		}
		pos = next
		if line == "" {
			return m, pos, true
		}
		if line[0] == ':' {
			v := line[1:]
			if strings.HasPrefix(v, " ") {
				v = v[1:]
			}
			m.Lines = append(m.Lines, Line{Comment: true, Text: v})
			continue
		}
		name, value := line, ""
		if c := strings.IndexByte(line, ':'); c >= 0 {
			name, value = line[:c], line[c+1:]
			if strings.HasPrefix(value, " ") {
				value = value[1:]
			}
		}
		switch name {
		case "data":
			m.Lines = append(m.Lines, Line{Text: value})
		case "id":
			m.HasID, m.ID = true, value
		case "event":
			m.HasType, m.Type = true, value
		case "retry":
			if ms, ok, _ := ParseRetry(value); ok {
				m.RetryMs = ms
			}
		}
	}
	return m, pos, false
}

// Same reports whether two models describe the same message (retry values <= 0 are "none").
func (m *Msg) Same(o *Msg) bool {
	if m.HasID != o.HasID || m.ID != o.ID || m.HasType != o.HasType || m.Type != o.Type {
		return false
	}
	a, b := m.RetryMs, o.RetryMs
	if a < 0 {
		a = 0
	}
	if b < 0 {
		b = 0
	}
	if a != b || len(m.Lines) != len(o.Lines) {
		return false
	}
	for i := range m.Lines {
		if m.Lines[i] != o.Lines[i] {
			return false
		}
	}
	return true
}
