#!/usr/bin/env python3
"""Source of truth for checks.json (per-property metadata used by ./check) and, through
`./check --manifest`, for MANIFEST.json. Run: python3 mkchecks.py"""
import json
import os
import subprocess

HERE = os.path.dirname(os.path.abspath(__file__))

HOOK_COMMITS = ["4667bf6"]

manifest = {
    "version": 1,
    "setup_cmd": "./check --setup",
    "hooks": {
        "guard": "verif (Go build tag)",
        "enable": "go1.26.8 test -c -race -tags verif ./props in /verif/harness (module replace github.com/tmaxmax/go-sse => /repo); the tag compiles verif_hook_on.go (SetVerifHook + verifYield) instead of the no-op verif_hook_off.go",
        "baseline_off_cmd": "cd /repo && GOFLAGS=-mod=mod GOPROXY=off GOSUMDB=off GOTOOLCHAIN=local go test -vet=off -count=1 ./...",
        "source_commits": HOOK_COMMITS,
        "add_only": True,
    },
    "engines": [
        {"name": "props", "path": "/verif/harness/props", "serves_properties": [],
         "kind_free_text": "Go test binary (go1.26.8, -race, -tags verif) holding one runtime monitor per property: seeded / small-scope-exhaustive workload generators drive the real go-sse code through its public seams; recording and fault-injecting doubles plus independent reference models decide; executed as child processes by /verif/check"},
        {"name": "check", "path": "/verif/check", "serves_properties": [],
         "kind_free_text": "python3 driver: rebuilds the binary from /repo's working tree, runs batches as child processes under a wall-clock watchdog, collects race-detector logs and crash output, merges monitor observations, triages against KNOWN_FINDINGS.json, writes evidence/<id>.json"},
    ],
    "notes": "Family: runtime monitoring and sanitizers. Floors (a run that observed too little is INCONCLUSIVE) are set on quantities the workload generators control (cases, scripts, executions, boundary calls observed), not on implementation-dependent counts such as the number of Write calls per message or yield points hit. Verdicts: exit 0 = held on what was observed, exit 1 = VIOLATION line(s) with replay files, exit 2 = INCONCLUSIVE (watchdog fired or the monitors observed fewer events than their floor). Case lists are a function of (VERIF_SEED, tier); no oracle reads the wall clock. See DESIGN.md.",
}

RACE = "Go race detector (+checkptr) active on every execution"

checks = {}


def chk(pid, **kw):
    checks[pid] = kw


chk("C01",
    level="exploration",
    technique="differential runtime monitor: sse.Read and Connection vs. an independent byte-level WHATWG reference interpreter, over small-scope-exhaustive and seeded streams x segmentations x early stops, under the race detector/checkptr",
    level_text="Every generated stream is executed through the real Read iterator and a real Connection (scripted RoundTripper) under every listed segmentation, and the yielded (LastEventID, Type, Data) sequence, end condition and iterator protocol are compared with a from-scratch reference of the WHATWG algorithm with the three documented adaptations. Exhaustive over all token strings up to 4 (thorough: 5) tokens of a 14-token syntax alphabet x every single cut point; seeded beyond that. Held = no disagreement on what was executed.",
    level_note="Trusts the reference interpreter (validated against the spec's own examples at start-up) and Go's bufio.Scanner. Says nothing about streams outside the generated families.",
    rule="cases = hand-built streams + all token strings up to N tokens over {data,event,id,retry,':',' ',x,1,+,LF,CR,BOM,NUL,0xff} + seeded grammar-random streams (multi-KB values straddling 4 KiB/64 KiB); each under whole / eof-with-last-bytes / byte-at-a-time / byte-at-a-time with empty reads / every single cut point / random multi-cuts, both entry points, and every early-stop position; a case is non-trivial if the reference yields >=1 event or an unexpected-EOF end; distinct = distinct input byte string",
    assumptions=["reference interpreter written from the WHATWG text is correct (self-checked on the spec examples)", "byte transparency: invalid UTF-8 is passed through, not replaced", "retry digit strings are kept <= 18 digits"],
    nbatch={"quick": 16, "thorough": 16},
    timeout_s={"quick": 600, "thorough": 3600},
    floors={"quick": {"evaluations": 30000, "events_observed": 100000, "resumed_reads": 500}},
    )

chk("C02",
    level="exploration",
    technique="runtime monitor with two independent decoders: every generated message sequence is encoded by the real Message.WriteTo/MarshalText/String and decoded by a strict WHATWG reference interpreter and by sse.Read; the decoded events must equal the list computed from the API arguments alone",
    level_text="Executes the real encoder on small-scope-exhaustive and seeded hostile payloads (CR/LF/CRLF runs, colons, leading spaces, field look-alikes, BOM, NUL, 70 KB) in every role (data, comment, ID, type), alone and in concatenated sequences of 1-5 messages with all Retry edge values, and decodes the bytes with a spec-strict reference and with go-sse's own parser. Held = no decoded sequence differed from the expectation derived from the arguments.",
    level_note="Trusts the strict reference interpreter and the line model (a trailing line break does not open an extra empty line). IDs containing NUL are expected to be ignored by clients, per spec.",
    rule="cases = all strings up to length 5 (thorough 6) over {a,' ',':',CR,LF,NUL} as data / comment / ID+type candidate between two plain messages + every hostile-pool entry in every role + seeded random sequences of 1-5 random messages; non-trivial = contains protocol-looking payload (colon, leading/trailing space, empty or multiple lines, NUL) and at least one data-carrying message; distinct = distinct wire text",
    assumptions=["reference interpreter is a spec-conforming SSE parser", "line model: every CR, LF or CRLF is one line break; a trailing break opens no extra line"],
    nbatch={"quick": 16, "thorough": 16},
    timeout_s={"quick": 600, "thorough": 3600},
    floors={"quick": {"evaluations": 20000, "events_decoded_strict": 30000}},
    )

chk("C14",
    level="exploration",
    technique="runtime assertion monitor on every construction route of EventID/EventType (NewID/NewType, ID/Type, UnmarshalText, UnmarshalJSON incl. escaped forms and struct fields, Scan, Message.UnmarshalText, Upgrade header) + wire check of every set value through a strict reference decoder",
    level_text="Every input of the small-scope-exhaustive and hostile families is pushed through every route; the monitor asserts IsSet => no CR/LF, CR/LF in the input => unset (+ error where the route has one), and that a message carrying the resulting value decodes to exactly one event between its neighbours. Held = no assertion fired. JSON documents of several shapes are decoded into a whole Message; newline positions are swept through long values.",
    level_note="Inputs outside the generated families are not covered; the Upgrade route is driven with header maps set directly on the request (net/http would reject CR/LF on the wire).",
    rule="cases = all strings up to length 5 (thorough 7) over {a,CR,LF,':',' '} + hostile pool + raw JSON documents + non-string driver values + wire texts from the C01 generators through Message.UnmarshalText; non-trivial = input contains CR or LF (string routes) or an id/event field (wire texts); distinct = distinct input",
    assumptions=["encoding/json decodes escapes as documented"],
    nbatch={"quick": 8, "thorough": 16},
    timeout_s={"quick": 600, "thorough": 3600},
    floors={"quick": {"observations": 100000, "multiline_inputs_rejected": 10000}},
    )

chk("C15",
    level="fault_enumeration",
    technique="runtime monitor: round-trip of real MarshalText/UnmarshalText against a line model, and a fault-injecting io.Writer failing at every individual Write call of each encoding with 0 / 1 / len-1 / len bytes accepted, checking the returned (n, err) and the accepted prefix",
    level_text="For each generated message the number W of Write calls of its encoding is measured, then WriteTo is re-executed once per (call index k < W, accepted byte count j) with the writer failing there; the monitor checks err identity, n == bytes accepted, accepted bytes == prefix of the full encoding, no Write after the failure. Encodings with more than 60 calls are sampled (first/last 12 calls and a stride). Round trip compares re-encoded bytes and fields. Writers that also offer WriteByte and/or WriteString are failed at every call as well; the text followed by another message decodes to the first message; every line length 0..300 and around powers of two.",
    level_note="Only io.Writer-contract-respecting writers are injected (short write implies an error). Trusts the line model's Encode as the definition of the wire text.",
    rule="cases = hand-picked shapes + seeded random messages (NUL-free IDs) from the hostile pool; each message x every Write call index x {0,1,len-1,len} accepted bytes; non-trivial = message has at least one field; distinct = distinct encoding",
    assumptions=["writers respect the io.Writer contract"],
    nbatch={"quick": 16, "thorough": 16},
    timeout_s={"quick": 600, "thorough": 3600},
    floors={"quick": {"messages": 5000, "faulted_writes": 5000, "roundtrips": 3000}},
    )

chk("C08",
    level="exploration",
    technique="reference-model monitor: real FiniteReplayer driven by exhaustive small and seeded long Put/Replay histories, every Replay's Send/Flush log and every Put result compared with a sequential FIFO model; Send/Flush fault injection at every replay position; reflection probe of ring shapes for coverage",
    level_text="For capacities 2-4 (thorough 2-6), both ID modes and 7 topic patterns, every presented-ID class (each buffered position, each evicted ID, unset, ten never-issued forms) x 3 subscription topic sets is replayed after every one of 2N+2 Puts, with invalid Puts interleaved, so every reachable (head, tail, count) and every start index incl. start == write index is executed; random histories extend to capacities up to 64. The monitor compares each Send sequence, IDs, flush and error with the model. Held = no difference. The same topic slice object is passed to every Put with that list (the model keeps master copies); lists with repeated topics and with five and more topics; own IDs that look like issued ones; the ID counter moved next to word-size boundaries.",
    level_note="Evicted IDs in automatic mode and numeric look-alikes of issued IDs (\"007\") are recorded but not judged (the property does not constrain them). Ring shapes are read by reflection for evidence only.",
    rule="cases = exhaustive block (capacity x mode x topic pattern, each a history of 2N+2 valid and N+1 invalid Puts with all ID classes replayed after every Put) + seeded random histories over capacities {2..9,16,64}; non-trivial = history longer than the capacity (eviction happened); distinct = distinct (configuration, op-string)",
    assumptions=["unique payload tokens identify each Put in the Send log"],
    nbatch={"quick": 8, "thorough": 16},
    timeout_s={"quick": 600, "thorough": 3600},
    floors={"quick": {"replays": 200000, "sends_observed": 100000}},
    )

chk("C09",
    level="exploration",
    technique="reference-model monitor: real ValidReplayer with an injected clock driven by exhaustive op strings (Put/GC/clock advance, TTL=2) and seeded long histories that grow, wrap and shrink the buffer; every Replay compared with a sequential expiry model",
    level_text="All op strings of length 6 (thorough 8) over {Put a, Put b, GC, +1, +2} for TTL=2 under 6 GCInterval settings and both ID modes, with every ID class (every unexpired ID, expired IDs, unset, never-issued) replayed after every op; plus random histories up to 125 ops with TTL in {1,10,1000 ns,1 s}, bursts that grow the ring to 128 slots and GC/advance mixes that shrink it. The monitor checks the exact Send sequence for unexpired IDs, that no expired event is ever sent whatever ID is presented, and that unexpired events are never missing.",
    level_note="Presenting an expired ID is unconstrained by the property and only recorded. The clock is injected through ValidReplayer.Now and is non-decreasing.",
    rule="cases = exhaustive op strings (TTL=2) x GCInterval in {0,ttl/4,ttl/2,ttl,5ttl,1ns} x {manual,auto} + seeded random histories; non-trivial = history contains Puts and clock advances (A) or more than 4 Puts (B); distinct = distinct (configuration, op-string)",
    assumptions=["unique payload tokens identify each Put in the Send log", "clock non-decreasing"],
    nbatch={"quick": 16, "thorough": 16},
    timeout_s={"quick": 600, "thorough": 5400},
    floors={"quick": {"replays": 1000000, "sends_observed": 500000}},
    )

JOE_NOTE = "Scenarios run inside testing/synctest bubbles (virtual time, exact detection of a bubble that cannot finish); schedules are perturbed by virtual delays at the verif yield points of joe.go (random, targeted and n-th-invocation placements) and repeated under GOMAXPROCS 1/2/4/16; Go's select among simultaneously ready cases stays uncontrolled, so every scenario is executed under many schedules. Deciding observations are taken only at the public boundary (MessageWriter calls, Replayer calls, return values) and ordered by one logical clock."

chk("C03",
    level="exploration",
    technique="history monitor over real Joe executions in synctest bubbles with yield-point schedule perturbation: per-subscriber Send/Flush logs checked against the serialisation order witnessed at the Replayer boundary (exactly-once, order, topic filter, completeness before cancel, real-time consistency, flush-before-idle); race detector on",
    level_text="Seeded scenarios (1-5 subscribers with 1-3 topics incl. DefaultTopic, 1-4 concurrent publishers, cancellations, late subscriptions, optional mid-storm Shutdown, slow subscribers) are each executed under ~12 schedules (quick) / ~25 (thorough). A recording replayer gives Joe's serialisation order of publishes and registrations as a boundary witness; the monitor requires every subscriber's Send sequence to be exactly the matching suffix of that order cut at its removal point, with the cut bounded by logical-clock intervals, no duplicates, nothing for disjoint topics, the serialisation consistent with real time, Publish return values, and a Flush after the last successful Send at every quiescent point - also for what a replay sent to a resuming subscriber (a block of its own with real replayers and presented IDs). Without a replayer a witness-free consistency oracle is used. Shutdown contexts that are done already or time out mid-round; topic lists with a repeated topic; a 24-topic universe.",
    level_note=JOE_NOTE,
    rule="cases = seeded scenario programs x hook schedules (none, random delay policies, targeted window placements, n-th-invocation delays); non-trivial = at least one subscriber and two publishes; distinct = distinct (scenario, observed yield-point sequence) pair, so the distinct count measures distinct interleavings seen",
    assumptions=["subscribers' Send/Flush return (finite virtual latency)", "select choice among ready cases is not controlled; coverage of it comes from repetition"],
    nbatch={"quick": 16, "thorough": 16},
    timeout_s={"quick": 600, "thorough": 3600},
    floors={"quick": {"executions": 20000, "client_calls_observed": 100000, "replayer_calls_observed": 50000}},
    )

chk("C04",
    level="exploration",
    technique="history monitor over real Joe + real FiniteReplayer/ValidReplayer executions in synctest bubbles: a resuming subscriber's replay part and live part are checked against the put order witnessed at the Replayer boundary and a model of the buffer at its registration point; IDs compared between Put, replay and live delivery",
    level_text="Prefix histories of 0..3N+1 publishes for capacities 2,3,4,7 and the TTL replayer, manual and automatic IDs, then 1-3 subscribers presenting oldest / middle / newest / evicted / never-issued / unset IDs while 1-3 publishers run concurrently, each under ~9 schedules incl. delays at {subscription received, after Replay / before registration, message received, after Put}. The monitor splits every subscriber's Send log at the end of its Replay call and requires replay == buffered events after the ID at the registration point, live == later puts, no gap/duplicate at the boundary, same ID everywhere.",
    level_note=JOE_NOTE + " An evicted ID with automatic IDs is unconstrained by the property and not judged.",
    rule="cases = seeded scenarios (replayer kind x prefix length x presented-ID class x concurrent publishers) x hook schedules; non-trivial = at least one subscriber and two publishes; distinct = distinct (scenario, observed yield-point sequence)",
    assumptions=["ValidReplayer TTL (1 h virtual) never elapses in these scenarios; expiry is covered by C09"],
    nbatch={"quick": 16, "thorough": 16},
    timeout_s={"quick": 600, "thorough": 3600},
    floors={"quick": {"executions": 20000, "client_calls_observed": 100000, "replayer_calls_observed": 100000}},
    )

chk("C06",
    level="fault_enumeration",
    technique="fault-injecting MessageWriter/Replayer doubles (k-th Send/Flush fails, optionally cancelling the subscriber's context inside the failing call as net/http does; Replay errors) combined with yield-point delay placements in synctest bubbles; monitors: process survival (child process per batch), logical-clock rule 'no call after Subscribe returned', no overlapping calls, Subscribe return value vs. fault script; race detector on",
    level_text="For every seeded scenario the failure position (1st-4th Send or Flush of each subscriber), cancellation instants and replay faults are scripted and the scenario is executed under ~13 schedules incl. targeted delays in the window between 'context done seen' and 'unsubscription handed over' and between 'error reported' and 'subscriber removed', plus n-th-invocation delays over all yield points. A Go panic in Joe kills the child process and is reported with the scenario that was running; the monitors check the stamps of every MessageWriter call against the return stamp of its Subscribe and the returned error against the injected one.",
    level_note=JOE_NOTE,
    rule="cases = seeded fault scripts (which subscriber fails at which Send/Flush, cancel inside the failing call or at a scheduled instant, Replay error, Shutdown) x hook schedules; non-trivial = at least one subscriber and two publishes; distinct = distinct (scenario, observed yield-point sequence)",
    assumptions=["select choice among ready cases is not controlled; coverage of it comes from repetition"],
    nbatch={"quick": 16, "thorough": 16},
    timeout_s={"quick": 600, "thorough": 3600},
    floors={"quick": {"executions": 20000, "client_calls_observed": 100000, "real_goroutine_runs": 10000}},
    )

chk("C07",
    level="exploration",
    technique="synctest bubbles as exact deadlock/leak detector (a bubble whose goroutines are all durably blocked, or whose Joe goroutine survives, is reported by the runtime) + interval monitor on the return values of every Subscribe/Publish/Shutdown call against Shutdown's call/return stamps",
    level_text="Random programs of Subscribe / Publish / cancel / 1-3 Shutdown calls (background, already-cancelled and virtual-deadline contexts, concurrent and repeated, Shutdown as first call on a zero Joe, operations after Shutdown), slow subscribers, each under ~11 schedules with delays at the shutdown windows. 'Blocks forever' is decided exactly in virtual time: the scenario's bubble must terminate with every call returned and Joe's goroutine gone. ErrProviderClosed is allowed iff a Shutdown was called before the call returned and required iff the call started after a Shutdown returned nil; exactly one Shutdown may return nil / its context's error.",
    level_note=JOE_NOTE + " Liveness is restated as bounded progress in virtual time given subscribers whose Send/Flush return after finite virtual latency.",
    rule="cases = seeded programs x hook schedules; non-trivial = at least one subscriber and two publishes; distinct = distinct (scenario, observed yield-point sequence)",
    assumptions=["subscribers' Send/Flush return (finite virtual latency)"],
    nbatch={"quick": 16, "thorough": 16},
    timeout_s={"quick": 600, "thorough": 3600},
    floors={"quick": {"executions": 20000, "client_calls_observed": 20000}},
    )

chk("C17",
    level="fault_enumeration",
    technique="fault-injecting doubles (failing subscribers; replayer Put/Replay returning errors or panicking at the k-th call) in synctest bubbles with schedule perturbation; healthy subscribers' Send sequences checked against the serialisation witness (or the witness-free oracle after a replayer panic), Publish/Subscribe return values against the fault script, replayer call log after a panic",
    level_text="2-5 subscribers of which about half fail at a scripted Send/Flush, replayer faults (error or panic) at a scripted Put or Replay call, concurrent publishers and late subscribers, ~10 schedules each with delays inside the fan-out. The monitor requires: healthy subscribers receive exactly the matching serialised messages incl. the one during whose fan-out another subscriber failed; a failing subscriber gets nothing after its failure and its own error from Subscribe; a failing Put is returned by exactly that Publish and the message is still delivered; after a panic the replayer receives no further call while deliveries (checked through real-time completeness and a final probe message) continue. Long replays (200-400 stored messages) to subscribers failing at a late Send or an early Flush; Shutdown arriving while Put runs.",
    level_note=JOE_NOTE,
    rule="cases = seeded fault scripts x hook schedules; non-trivial = at least one subscriber and two publishes; distinct = distinct (scenario, observed yield-point sequence)",
    assumptions=["subscribers' Send/Flush return"],
    nbatch={"quick": 16, "thorough": 16},
    timeout_s={"quick": 600, "thorough": 3600},
    floors={"quick": {"executions": 20000, "client_calls_observed": 100000}},
    )

CLIENT_NOTE = "Connection.Connect runs inside a testing/synctest bubble against a scripted http.RoundTripper, so waits of any length are virtual and exact; the monitor reads only what crosses the public boundary (requests seen by the RoundTripper with virtual arrival times, OnRetry arguments, callbacks, Connect's return value)."

chk("C10",
    level="exploration",
    technique="reference-model monitor over scripted reconnect histories: each attempt's Last-Event-ID header and request body as seen by a recording http.RoundTripper are compared with a model that interprets every attempt's stream with the independent WHATWG reference (dispatched events only, NUL ids ignored, empty id resets)",
    level_text="Seeded scripts of 1-12 attempts mixing transport failures, validator rejections, streams with 0-3 events ending cleanly / with a read error / in mid-event / in mid-line (IDs: none, plain, empty, with NUL, long, multi-byte), delivered whole, cut or byte-at-a-time, for every body kind (none, NoBody, re-readable, no GetBody, GetBody failing on the j-th call). The monitor requires header(i) == ID of the last event dispatched before attempt i (absent when empty), the original body bytes on every attempt, and ErrNoGetBody / GetBody's error before any request carries a consumed body. A further family drives one Connection through up to four Connect calls (pause between NewConnection and the first call, gaps between calls; close-once and seekable bodies; a quarter of all scripts go through sse.DefaultClient): every request after the very first is a reconnection.",
    level_note=CLIENT_NOTE,
    rule="cases = seeded scripts (attempt outcomes x id values x segmentations x body kinds); non-trivial = at least two attempts were made; distinct = distinct script",
    assumptions=["the request itself carries no Last-Event-ID header"],
    nbatch={"quick": 16, "thorough": 16},
    timeout_s={"quick": 600, "thorough": 3600},
    floors={"quick": {"connect_executions": 5000, "attempts_observed": 20000, "reconnect_by_hand_scenarios": 1000}},
    )

chk("C11",
    level="fault_enumeration",
    technique="fault enumeration on the response body and context: for 30 base streams, a clean EOF, a read error and a cancellation are injected after every byte offset (whole and byte-at-a-time delivery, MaxRetries -1/1/3); Connect's return value and attempt count are compared with a model of the script; plus seeded mixed scripts and the same ending checks on sse.Read",
    level_text="Every prefix of every base stream is served as a response body that ends cleanly, fails with a distinguishable read error, or cancels the request context at that offset; the monitor requires: never nil; ctx.Err() exactly when the context was cancelled (also in mid-line); *ConnectionError wrapping io.EOF / ErrUnexpectedEOF (only for a clean mid-line end) / the read error itself; validator or body-reset errors end Connect at once; attempt counts equal the model. Random scripts add validator verdicts, transport errors, cancellation inside RoundTrip, in the backoff wait and before Connect. A further family drives one Connection through up to four Connect calls: every call returns a *ConnectionError for its own last attempt and makes exactly the attempts its retry limit prescribes. Another block ends the request context inside an event callback (cancel, cancel with cause, a virtual deadline that passes there) under every retry limit including none - the body then answers every Read with the context's error and Connect must return ctx.Err() - and ends streams with read errors that wrap context.DeadlineExceeded / context.Canceled while the request's own context is alive (lost connections like any other).",
    level_note=CLIENT_NOTE,
    rule="cases = (base stream, prefix length, ending kind) x {whole, bytewise} x MaxRetries {-1,1,3} (exhaustive over the listed bases) + seeded scripts + sse.Read over failing readers; non-trivial = at least two attempts (Connect) or non-empty prefix (Read); distinct = distinct script",
    assumptions=["when a script makes two reasons true at once both results are accepted"],
    nbatch={"quick": 16, "thorough": 16},
    timeout_s={"quick": 600, "thorough": 3600},
    floors={"quick": {"connect_executions": 10000, "attempts_observed": 20000, "reconnect_by_hand_scenarios": 1000, "context_ended_in_callback": 500, "read_errors_wrapping_a_context_error": 1000}},
    )

chk("C12",
    level="exploration",
    technique="reference-schedule monitor in virtual time: OnRetry durations and the virtual arrival time of every attempt at a scripted RoundTripper are compared with an interval-arithmetic model of the documented Backoff schedule (count limit, growth, cap, jitter bounds, reset on success, server retry override, MaxElapsedTime)",
    level_text="Seeded Backoff configurations (defaults, Jitter -1/0/0.1/0.5/0.99/out of range, Multiplier 1/1.5/2/10/<1, MaxInterval unset/below/above the initial interval, MaxElapsedTime unset/small/large, MaxRetries -1/0/1/3/7) x histories of 1-30 attempt outcomes incl. successful connections that send valid and invalid retry fields and RoundTrips that take virtual time. The monitor checks: OnRetry exactly once per retry at the instant the attempt ended, next attempt exactly d later, d within +-Jitter of the model's base interval (equal for Jitter -1), no retry beyond MaxRetries or MaxElapsedTime, no early stop. Tolerances are arithmetic (1 ns + 1e-12 relative per multiplication). A further family drives one Connection through up to four Connect calls, with a pause between NewConnection and Connect under a MaxElapsedTime budget no scripted wait comes near: attempts and OnRetry calls per call equal the model (wait lengths of later calls are not judged).",
    level_note=CLIENT_NOTE + " Once the real-valued interval exceeds what time.Duration can hold (a 1e12 ms retry after a few growth steps) nothing is judged until the next reset; 'retry: 0' accepts both readings.",
    rule="cases = seeded (Backoff configuration, attempt history) pairs; non-trivial = at least two attempts; distinct = distinct script",
    assumptions=["no statistical claim about the jitter distribution, only its bounds"],
    nbatch={"quick": 16, "thorough": 16},
    timeout_s={"quick": 600, "thorough": 3600},
    floors={"quick": {"connect_executions": 5000, "onretry_observed": 30000, "reconnect_by_hand_scenarios": 1000}},
    )

chk("C13",
    level="exploration",
    technique="two monitors over real Connection executions in synctest bubbles: (1) exact per-event callback multiset against a model registry at quiescent points of step-fed streams; (2) porcupine v1.3.0 linearizability check of recorded histories, one per callback (subscribe, unsubscribe calls, and for every matching event whether it was delivered, against a one-bit sequential model) plus interval rules (never twice, never after the remover returned, must/must-not by the Read stamps bracketing each dispatch); race detector on",
    level_text="Sequential scripts of 5-30 steps over {SubscribeEvent(t), SubscribeMessages, SubscribeToAll, call any remover incl. stale and repeated ones, emit event of type t in {'' , t1, t2}}, a third of the steps before Connect and the rest while connected: after every emitted event the bubble is driven to quiescence and the set of (callback, event) invocations must equal the model's. Concurrent scripts: 1-4 goroutines subscribe/unsubscribe while a feeder pushes events; the history with logical-clock intervals is checked with porcupine and with direct rules, under GOMAXPROCS 1/2/4/16 with the race detector. In-dispatch scenarios (real goroutines): 2-4 goroutines call one remover while the dispatch that will still reach its callback is in progress (no call may return before the last invocation), and a callback that panics once (afterwards removers and Subscribe calls return and the next Connect dispatches to exactly the callbacks subscribed then). A 70 000-cycle subscription life next to nine long-lived callbacks.",
    level_note=CLIENT_NOTE + " The dispatch interval of an event is bounded from outside by the Read that returned its bytes and the next Read call.",
    rule="cases = seeded scripts (sequential and concurrent); non-trivial = at least one event emitted and one callback registered; distinct = distinct script",
    assumptions=["one event per body chunk so that Read stamps bracket exactly one dispatch"],
    nbatch={"quick": 16, "thorough": 16},
    timeout_s={"quick": 600, "thorough": 3600},
    floors={"quick": {"scripts": 10000, "callback_invocations_observed": 50000, "porcupine_histories": 10000, "in_dispatch_scenarios": 300, "churn_rounds": 40}},
    )

chk("C16",
    level="fault_enumeration",
    technique="recording, fault-injecting http.ResponseWriter doubles of every shape (Flusher, FlushError, both, wrapped once/twice via Unwrap, none) under real Session/Server code: failure injected at every underlying Write/Flush operation of every script; ordered call log with header snapshots checked against the HTTP obligations; recording Provider for ServeHTTP",
    level_text="For seeded Send/Flush scripts (1-8 calls, hostile messages) on every flushing writer shape, the number W of underlying write/flush operations is measured and the script re-executed once per (operation index k < W, accepted bytes 0/1/all) with the writer failing there. The monitor checks on the writer's own call log: Content-Type text/event-stream present and successfully flushed before the first body byte, no header access after the stream started, body == concatenation of the encodings of the Sends that returned nil (+ accepted prefix of the failing one), a Flush that returned nil is followed by no unflushed write, the failing call returns the injected error and nothing is written afterwards. ServeHTTP is run against a recording Provider for every shape x Last-Event-Id header value x OnSession behaviour x provider refusal. ServeHTTP also runs with a Logger (discarding, or returning nil), with request URLs carrying look-alikes of the header, with a cancelled request context, through 12- and 40-fold wrapped writers, and end to end on the zero-value Server with its own Joe.",
    level_note="Writers respect the io.Writer contract. A plain http.Flusher cannot report flush failures, so those are injected only on FlushError shapes. http.Error after a started stream is not judged.",
    rule="cases = seeded session scripts x writer shape x every underlying operation index x {0,1,all} accepted bytes + Upgrade on all 8 shapes + seeded ServeHTTP configurations; non-trivial = script with more than one call (sessions) / every ServeHTTP configuration; distinct = distinct (shape, script) or configuration",
    assumptions=["response writers respect the io.Writer contract"],
    nbatch={"quick": 16, "thorough": 16},
    timeout_s={"quick": 600, "thorough": 3600},
    floors={"quick": {"session_scripts": 2500, "faulted_executions": 10000, "servehttp_executions": 3000, "zero_value_server_sessions": 100}},
    )

chk("C19",
    level="exploration",
    technique="shadow-model monitor: every member of a family of clones carries its own line model; after every mutation (AppendData/AppendComment/field assignment/Clone) the real String() of every member is compared with its model; publishing one *Message repeatedly through real replayers (Put) and through Joe (sequentially and from concurrent goroutines, race detector on) with before/after comparison of the argument and of the assigned IDs",
    level_text="Seeded op strings of 5-40 mutations over families of up to 6 messages with clone points anywhere (incl. after appends that leave spare slice capacity), plus an exhaustive block: clone taken after 0..12 appends x all 6 orders of appending to the original and two sibling clones. Republish: one message put 2-7 times into each replayer kind x ID mode; the argument's encoding and ID.IsSet must not change, automatic IDs must be consecutive, the stored copy must not alias the argument; through Joe with 1-4 concurrent publishers. Snapshots include the fields (Retry, ID, Type), Joe runs without a replayer too, UnmarshalText goes through one reused scratch buffer, the ID counter is moved next to word-size boundaries, and one message is used by several goroutines at once (Put on their own replayers, Clone, encoding) under the race detector.",
    level_note="Trusts the line model's Encode as the expected encoding of a mutation history.",
    rule="cases = seeded clone-family op strings + exhaustive clone-point block + seeded republish scenarios (direct Put and through Joe); non-trivial = family with at least one clone / every republish scenario; distinct = distinct op string or scenario",
    assumptions=["messages are not mutated concurrently with Publish by the caller"],
    nbatch={"quick": 8, "thorough": 16},
    timeout_s={"quick": 600, "thorough": 3600},
    floors={"quick": {"family_checks": 300000, "puts": 5000, "joe_republish_executions": 1000, "shared_message_executions": 400, "long_republish_histories": 3}},
    )

chk("C18",
    level="exploration",
    technique="reachability monitor: weak.Pointer probes on every message handed to the real replayers, forced runtime.GC() x2 at model-determined points, compared with the model's set of messages that may still be buffered; reflection probe of ring slots outside the live range; live messages serve as sensitivity control",
    level_text="Seeded Put/Replay/GC/clock histories on FiniteReplayer (capacities 2-16) and ValidReplayer (TTL 10/100/1000 ns, GCInterval 0, ttl/4, ttl/2, ttl, 3ttl, 1 ns; bursts that grow the ring, advances that expire it, collections that shrink it), both ID modes. The harness keeps only weak pointers and tokens. Finite: after Puts, every message older than the last N must be unreachable. Valid: deadness is asserted only where a collection is certain under the conservative reading (explicit GC, or a Put at least GCInterval after the last certain collection): every message with putTime+TTL <= now must be unreachable. The messages that must still be buffered are required to be alive (probe sensitivity). Histories retune the public GCInterval field; large histories keep 4 097-9 000 messages alive and expire a part of them. A further block interleaves rejected Puts (no topics, preset ID in automatic mode, no ID in manual mode): whether a rejected Put collects is open, so the model keeps the set of instants the implementation may count the interval from (a rejected Put that was due advances it only if every expired message was observed unreachable afterwards) and demands a collection of an accepted Put only when it is due from every instant of the set.",
    level_note="Relies on Go's precise garbage collector and on messages being allocated in a non-inlined helper frame; says nothing about memory held outside *Message (e.g. topic slices).",
    rule="cases = seeded histories per replayer kind; non-trivial = more puts than the capacity (Finite) or more than 4 puts (Valid); distinct = distinct (configuration, op-string)",
    assumptions=["runtime.GC() twice collects every unreachable message (precise GC)", "clock non-decreasing"],
    nbatch={"quick": 16, "thorough": 16},
    timeout_s={"quick": 600, "thorough": 3600},
    floors={"quick": {"gc_probes": 15000, "dead_confirmed": 50000, "live_controls_ok": 30000, "large_histories": 2, "rejected_puts": 2000, "put_triggered_after_rejected": 500}},
    gomaxprocs=[2],
    )

chk("C20",
    level="exploration",
    technique="counting-reader monitor: a byte-counting io.Reader (incl. endless readers with a hard cap) feeds real Read/Connection under every MaxEventSize / Connection.Buffer setting; delivered events, the end condition and the number of bytes pulled past the last completed event are compared with token sizes computed from the text and with the reference interpreter; race detector/checkptr on",
    level_text="Streams are assembled from blocks whose token size (preceding blank lines + block + blank line) sits at 1, 2, 3, around limit-5..limit+4, limit/2, 2*limit, 4095..4097, 8191/8193, 32767/32769, 65535..65537, plus runs of more than `limit` bytes of tiny keep-alive blocks, with and without an unterminated tail, under whole / 1-byte / 4096 / 4097 / random chunkings, for 9 ReadConfig and 8 Connection.Buffer settings (nil and non-nil buffers, cap above and below max; a second Buffer call, a limit lowered after an earlier Connect, and four settings in which the stream arrives on the connection's first reconnection). Endless streams (one endless line, blank lines, comment lines, data lines, CR runs) follow every prefix. The monitor requires: all tokens <= limit-3 => delivered completely and intact with the reference's end condition; a token >= limit+3 => a non-nil error, exactly the events that complete before it, and at most `limit` bytes pulled past the end of the last completed token; endless streams are stopped by an error before the reader's hard cap (4*limit). Tokens within 3 bytes of the limit are recorded, not judged.",
    level_note="limit = MaxEventSize (64 KiB default) for Read and max(maxSize, cap(buf)) for Connection.Buffer (bufio.Scanner's documented rule). Byte-at-a-time chunking is combined only with limits <= 4096 because the split function rescans a token from its start on every read.",
    rule="cases = seeded (configuration, block sizes, chunking) triples + the exhaustive product configuration x endless unit x prefix; non-trivial = every case (each is judged in one of the classes below/oversized/endless or counted as boundary); distinct = distinct (configuration, chunking, stream shape)",
    assumptions=["reference interpreter correct", "bufio.Scanner semantics as documented"],
    nbatch={"quick": 16, "thorough": 16},
    timeout_s={"quick": 900, "thorough": 5400},
    floors={"quick": {"executions": 10000, "judged_below_limit": 3000, "judged_oversized": 1500, "judged_endless": 300}},
    )

chk("C05",
    level="fault_enumeration",
    technique="end-to-end runtime monitor over real net/http on loopback TCP: sse.Server{Joe+replayer} behind http.Server, sse.Client through http.Transport with a client-side net.Conn wrapper that closes abruptly after a byte budget or on command, plus server-side handler returns; online exactly-next oracle at the client callback, Last-Event-Id check at the server, bounded-progress (step count) check after faults stop; race detector on",
    level_text="(A) the reconnection response (headers + replayed events) is cut after every 3rd (thorough: every) byte offset 0..420 for two replayer/ID-mode combinations; (B) seeded sequences of 1-6 faults: abrupt close after N more response bytes, abrupt close while idle in the caught-up steady state (reconnect with the newest ID), close with a byte budget on the next connection (cuts inside headers, inside an event, between events), handler return after the stream started, with publishes racing reconnections, hostile multi-line payloads, event types, all four replayer x ID-mode combinations and optional microsecond delays at Joe's yield points. Every event reaching the client callback must be exactly the next published one (ID, type, data); each request's Last-Event-Id must equal the client's last dispatched ID; once faults stop the final event must arrive within 3 fault-free subscriptions; Connect must not return before its context is cancelled; the process must survive.",
    level_note="Runs in real time (the only check that does); the verdict never depends on elapsed time: a 40 s wall-clock watchdog per scenario yields INCONCLUSIVE. Cuts are applied only after the client received its first event, and handler returns only on sessions that already sent something (both as the property states).",
    rule="cases = offset sweep + seeded fault sequences; non-trivial = the client made at least 2 connections (a reconnection happened); distinct = distinct script",
    assumptions=["loopback TCP available", "replayer large enough for what is published while the client is away (capacity 512, TTL 1 h)"],
    nbatch={"quick": 16, "thorough": 16},
    timeout_s={"quick": 900, "thorough": 5400},
    floors={"quick": {"runs": 2500, "connections_made": 8000, "cuts_fired": 5000, "events_checked_online": 30000}},
    )

not_built = {
}


def main():
    na = []
    out_checks = {}
    for pid in ["C%02d" % i for i in range(1, 21)]:
        if pid in checks:
            out_checks[pid] = checks[pid]
        else:
            na.append({"property_id": pid, "reason": not_built.get(pid, "monitor not built yet in this round (planned in DESIGN.md §4); not claimed until its check exists")})
    served = sorted(out_checks)
    for e in manifest["engines"]:
        e["serves_properties"] = served
    cfg = {"manifest": manifest, "checks": out_checks, "not_applicable": na}
    with open(os.path.join(HERE, "checks.json"), "w") as f:
        json.dump(cfg, f, indent=1)
        f.write("\n")
    subprocess.check_call([os.path.join(HERE, "check"), "--manifest"])


if __name__ == "__main__":
    main()
