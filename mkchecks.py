#!/usr/bin/env python3
"""Source of truth for checks.json (per-property metadata used by ./check) and, through
`./check --manifest`, for MANIFEST.json. Run: python3 mkchecks.py"""
import json
import os
import subprocess

HERE = os.path.dirname(os.path.abspath(__file__))

HOOK_COMMITS = ["4667bf6"]

manifest = {
    "version": 1,
    "setup_cmd": "./check --setup",
    "hooks": {
        "guard": "verif (Go build tag)",
        "enable": "go1.26.8 test -c -race -tags verif ./props in /verif/harness (module replace github.com/tmaxmax/go-sse => /repo); the tag compiles verif_hook_on.go (SetVerifHook + verifYield) instead of the no-op verif_hook_off.go",
        "baseline_off_cmd": "cd /repo && GOFLAGS=-mod=mod GOPROXY=off GOSUMDB=off GOTOOLCHAIN=local go test -vet=off -count=1 ./...",
        "source_commits": HOOK_COMMITS,
        "add_only": True,
    },
    "engines": [
        {"name": "props", "path": "/verif/harness/props", "serves_properties": [],
         "kind_free_text": "Go test binary (go1.26.8, -race, -tags verif) holding one runtime monitor per property: seeded / small-scope-exhaustive workload generators drive the real go-sse code through its public seams; recording and fault-injecting doubles plus independent reference models decide; executed as child processes by /verif/check"},
        {"name": "check", "path": "/verif/check", "serves_properties": [],
         "kind_free_text": "python3 driver: rebuilds the binary from /repo's working tree, runs batches as child processes under a wall-clock watchdog, collects race-detector logs and crash output, merges monitor observations, triages against KNOWN_FINDINGS.json, writes evidence/<id>.json"},
    ],
    "notes": "Family: runtime monitoring and sanitizers. Verdicts: exit 0 = held on what was observed, exit 1 = VIOLATION line(s) with replay files, exit 2 = INCONCLUSIVE (watchdog fired or the monitors observed fewer events than their floor). Case lists are a function of (VERIF_SEED, tier); no oracle reads the wall clock. See DESIGN.md.",
}

RACE = "Go race detector (+checkptr) active on every execution"

checks = {}


def chk(pid, **kw):
    checks[pid] = kw


chk("C01",
    level="exploration",
    technique="differential runtime monitor: sse.Read and Connection vs. an independent byte-level WHATWG reference interpreter, over small-scope-exhaustive and seeded streams x segmentations x early stops, under the race detector/checkptr",
    level_text="Every generated stream is executed through the real Read iterator and a real Connection (scripted RoundTripper) under every listed segmentation, and the yielded (LastEventID, Type, Data) sequence, end condition and iterator protocol are compared with a from-scratch reference of the WHATWG algorithm with the three documented adaptations. Exhaustive over all token strings up to 4 (thorough: 5) tokens of a 14-token syntax alphabet x every single cut point; seeded beyond that. Held = no disagreement on what was executed.",
    level_note="Trusts the reference interpreter (validated against the spec's own examples at start-up) and Go's bufio.Scanner. Says nothing about streams outside the generated families.",
    rule="cases = hand-built streams + all token strings up to N tokens over {data,event,id,retry,':',' ',x,1,+,LF,CR,BOM,NUL,0xff} + seeded grammar-random streams (multi-KB values straddling 4 KiB/64 KiB); each under whole / eof-with-last-bytes / byte-at-a-time / byte-at-a-time with empty reads / every single cut point / random multi-cuts, both entry points, and every early-stop position; a case is non-trivial if the reference yields >=1 event or an unexpected-EOF end; distinct = distinct input byte string",
    assumptions=["reference interpreter written from the WHATWG text is correct (self-checked on the spec examples)", "byte transparency: invalid UTF-8 is passed through, not replaced", "retry digit strings are kept <= 18 digits"],
    nbatch={"quick": 16, "thorough": 16},
    timeout_s={"quick": 600, "thorough": 3600},
    floors={"quick": {"evaluations": 30000, "events_observed": 100000}},
    )

not_built = {
}


def main():
    na = []
    out_checks = {}
    for pid in ["C%02d" % i for i in range(1, 21)]:
        if pid in checks:
            out_checks[pid] = checks[pid]
        else:
            na.append({"property_id": pid, "reason": not_built.get(pid, "monitor not built yet in this round (planned in DESIGN.md §4); not claimed until its check exists")})
    served = sorted(out_checks)
    for e in manifest["engines"]:
        e["serves_properties"] = served
    cfg = {"manifest": manifest, "checks": out_checks, "not_applicable": na}
    with open(os.path.join(HERE, "checks.json"), "w") as f:
        json.dump(cfg, f, indent=1)
        f.write("\n")
    subprocess.check_call([os.path.join(HERE, "check"), "--manifest"])


if __name__ == "__main__":
    main()
