#!/usr/bin/env python3
"""Run quick checks against a change that is supposed to keep every property true (a "benign"
change produced by a sub-agent that was given all property statements). Any VIOLATION is a false
alarm candidate and must be triaged by hand.

  benign.py <dir-with-patch.diff> <area A-F | list of property ids>
"""
import json, os, subprocess, sys
sys.path.insert(0, os.path.dirname(os.path.abspath(__file__)))
import mutant

AREAS = {
    "A": ["C01", "C02", "C05", "C10", "C11", "C12", "C13", "C14", "C15", "C20"],
    "B": ["C02", "C05", "C14", "C15", "C16", "C19", "C04", "C08"],
    "C": ["C03", "C04", "C05", "C06", "C07", "C17", "C19"],
    "D": ["C04", "C05", "C06", "C08", "C09", "C17", "C18", "C19"],
    "E": ["C01", "C05", "C10", "C11", "C12", "C13", "C20"],
    "F": ["C05", "C14", "C16"],
}


def main():
    d = sys.argv[1]
    props = AREAS.get(sys.argv[2], sys.argv[2:])
    # the suite must pass with the change (twice out of up to five runs, see mutant.py)
    res = mutant.check(d, props)
    out = {p: {"rc": r.get("rc"), "alarm": r.get("detected"), "first": r.get("first")} for p, r in res.items()}
    print(json.dumps(out, indent=1))
    json.dump(out, open(os.path.join(d, "checks.json"), "w"), indent=1)


if __name__ == "__main__":
    main()
