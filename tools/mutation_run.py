#!/usr/bin/env python3
"""Systematic first-order mutation analysis (tools/mutate enumerates the mutants).

Works on a private lane: a git worktree of /repo plus a copy of /verif whose harness points at
that worktree, so /repo itself is never touched.

  mutation_run.py setup <lane>            create /tmp/mlane<lane>/{repo,verif}
  mutation_run.py run <lane> <nlanes>     process mutants k with k % nlanes == lane
  mutation_run.py only <lane> <k> [...]   re-run the given mutant numbers on that lane
  mutation_run.py teardown <lane>
  mutation_run.py summary                 write /verif/mutation/SUMMARY.md from the result files

For each mutant: build; run the repository's own suite (a failing suite kills the mutant: not
interesting here); for survivors run the quick checks of the properties anchored in that file, in
order, until one reports a VIOLATION.
"""
import json, os, subprocess, sys, shutil, time, glob

FILES = ["joe.go", "replay.go", "client.go", "client_connection.go", "event.go", "message.go", "message_fields.go",
         "session.go", "server.go", "internal/parser/chunk.go", "internal/parser/field.go",
         "internal/parser/field_parser.go", "internal/parser/parser.go"]
CHECKS = {
    "joe.go": ["C03", "C06", "C07", "C17", "C04", "C19", "C05"],
    "replay.go": ["C08", "C09", "C18", "C04", "C19", "C17"],
    "client.go": ["C12", "C11", "C10", "C05"],
    "client_connection.go": ["C13", "C10", "C11", "C12", "C20", "C01", "C05"],
    "event.go": ["C01", "C20", "C10", "C12", "C11", "C05"],
    "message.go": ["C02", "C15", "C19", "C14", "C16"],
    "message_fields.go": ["C14", "C02", "C15"],
    "session.go": ["C16", "C14", "C05"],
    "server.go": ["C16", "C05"],
    "internal/parser/chunk.go": ["C02", "C15", "C01"],
    "internal/parser/field.go": ["C01", "C15"],
    "internal/parser/field_parser.go": ["C01", "C15", "C14", "C20", "C02"],
    "internal/parser/parser.go": ["C01", "C20", "C11", "C15"],
}
OUT = "/verif/mutation"
ENV = dict(os.environ, GOFLAGS="-mod=mod", GOPROXY="off", GOSUMDB="off", GOTOOLCHAIN="local")


def lane_dir(l):
    return "/tmp/mlane%s" % l


def sh(cmd, cwd=None, timeout=None):
    try:
        p = subprocess.run(cmd, cwd=cwd, env=ENV, stdout=subprocess.PIPE, stderr=subprocess.STDOUT, text=True, timeout=timeout)
        return p.returncode, p.stdout
    except subprocess.TimeoutExpired as e:
        return 124, (e.stdout or "") if isinstance(e.stdout, str) else ""


def setup(l):
    d = lane_dir(l)
    os.makedirs(d, exist_ok=True)
    repo = d + "/repo"
    if not os.path.exists(repo):
        rc, out = sh(["git", "-C", "/repo", "worktree", "add", "--detach", repo, "HEAD"])
        assert rc == 0, out
    v = d + "/verif"
    if os.path.exists(v):
        shutil.rmtree(v)
    shutil.copytree("/verif", v, ignore=shutil.ignore_patterns(".build", "replays", "seeded", "benign", ".git", "mutation", "findings"))
    gm = v + "/harness/go.mod"
    s = open(gm).read().replace("=> /repo", "=> " + repo)
    open(gm, "w").write(s)
    print("lane", l, "ready")


def teardown(l):
    d = lane_dir(l)
    sh(["git", "-C", "/repo", "worktree", "remove", "--force", d + "/repo"])
    shutil.rmtree(d, ignore_errors=True)


def enumerate_mutants(repo):
    if not os.path.exists("/tmp/mutate"):
        rc, out = sh(["go", "build", "-o", "/tmp/mutate", "."], cwd="/verif/tools/mutate")
        assert rc == 0, out
    rc, out = sh(["/tmp/mutate"] + FILES, cwd=repo)
    assert rc == 0, out
    muts = [json.loads(l) for l in out.splitlines() if l.strip()]
    for k, m in enumerate(muts):
        m["k"] = k
    return muts


def run_one(l, m):
    d = lane_dir(l)
    repo, v = d + "/repo", d + "/verif"
    path = os.path.join(repo, m["file"])
    orig = open(path, "rb").read()
    res = dict(m)
    try:
        new = orig[:m["start"]] + m["new"].encode() + orig[m["end"]:]
        open(path, "wb").write(new)
        rc, out = sh(["go", "build", "./..."], cwd=repo, timeout=300)
        if rc != 0:
            res["status"] = "does_not_compile"
            return res
        rc, out = sh(["go", "vet", "./..."], cwd=repo, timeout=300)
        if rc != 0:
            res["status"] = "vet_fails"
            return res
        rc, out = sh(["go", "test", "-vet=off", "-count=1", "-timeout", "120s", "./..."], cwd=repo, timeout=400)
        if rc != 0:
            res["status"] = "killed_by_suite"
            return res
        res["status"] = "survives_suite"
        res["checks"] = {}
        for c in CHECKS[m["file"]]:
            t0 = time.time()
            rc, out = sh([v + "/check", c], cwd=v, timeout=1500)
            first = [ln for ln in out.splitlines() if "VIOLATION" in ln or "INCONCLUSIVE" in ln][:2]
            msg = [ln.strip() for ln in out.splitlines() if ln.startswith("  " + c)][:1]
            verdict = "violation" if any("VIOLATION" in x for x in first) else ("inconclusive" if any("INCONCLUSIVE" in x for x in first) or rc not in (0, 1) else "held")
            res["checks"][c] = {"verdict": verdict, "wall": round(time.time() - t0, 1), "first": (msg or first)[:1]}
            if verdict == "violation":
                res["status"] = "caught"
                res["caught_by"] = c
                break
        return res
    finally:
        open(path, "wb").write(orig)


def run(l, n, only=None):
    d = lane_dir(l)
    muts = enumerate_mutants(d + "/repo")
    os.makedirs(OUT, exist_ok=True)
    outp = "%s/results_lane%s.jsonl" % (OUT, l)
    done = set()
    if os.path.exists(outp) and only is None:
        for ln in open(outp):
            done.add(json.loads(ln)["k"])
    with open(outp, "a") as f:
        for m in muts:
            if only is not None:
                if m["k"] not in only:
                    continue
            elif m["k"] % n != l or m["k"] in done:
                continue
            r = run_one(l, m)
            r["ts"] = time.time()
            f.write(json.dumps(r) + "\n")
            f.flush()
            print(m["k"], m["file"], m["line"], m["op"], repr(m["old"][:30]), "->", repr(m["new"][:30]), r["status"], r.get("caught_by", ""), flush=True)


def summary():
    rows = {}
    for p in sorted(glob.glob(OUT + "/results_lane*.jsonl")):
        for ln in open(p):
            r = json.loads(ln)
            if r["k"] not in rows or r.get("ts", 0) >= rows[r["k"]].get("ts", 0):
                rows[r["k"]] = r  # the latest run of a mutant wins
    st = {}
    for r in rows.values():
        st[r["status"]] = st.get(r["status"], 0) + 1
    triage = {}
    tp = OUT + "/TRIAGE.json"
    if os.path.exists(tp):
        triage = json.load(open(tp))
    with open(OUT + "/SUMMARY.md", "w") as f:
        f.write("# First-order mutation analysis of go-sse against the quick checks\n\n")
        f.write("Generated by tools/mutation_run.py (operators: relational/logical operator swap, condition negation, statement deletion, return nil / negated bool, break<->continue, integer and boolean literals, +-1 arithmetic). ")
        f.write("A mutant that fails to build, fails `go vet` or is killed by the repository's own suite is not interesting here. For the others the quick checks of the properties anchored in the mutated file were run in order until one reported a VIOLATION.\n\n")
        f.write("| status | mutants |\n|---|---|\n")
        for k in sorted(st):
            f.write("| %s | %d |\n" % (k, st[k]))
        surv = [r for r in rows.values() if r["status"] in ("caught", "survives_suite")]
        caught = [r for r in surv if r["status"] == "caught"]
        f.write("\n%d mutants survive the repository's suite; %d of them are caught by a quick check.\n\n" % (len(surv), len(caught)))
        by = {}
        for r in caught:
            by[r["caught_by"]] = by.get(r["caught_by"], 0) + 1
        f.write("Caught by: " + ", ".join("%s %d" % (k, by[k]) for k in sorted(by)) + "\n\n")
        f.write("## Not caught (triage in TRIAGE.json)\n\n| # | file:line | operator | change | checks run | triage |\n|---|---|---|---|---|---|\n")
        for r in sorted(surv, key=lambda r: r["k"]):
            if r["status"] == "caught":
                continue
            ch = ", ".join("%s:%s" % (c, v["verdict"]) for c, v in r.get("checks", {}).items())
            f.write("| %d | %s:%d | %s | `%s` -> `%s` | %s | %s |\n" % (r["k"], r["file"], r["line"], r["op"], r["old"][:40].replace("|", "\\|").replace("\n", " "), r["new"][:40].replace("|", "\\|").replace("\n", " "), ch, triage.get(str(r["k"]), "")))
    print(st)


if __name__ == "__main__":
    cmd = sys.argv[1]
    if cmd == "setup":
        setup(int(sys.argv[2]))
    elif cmd == "teardown":
        teardown(int(sys.argv[2]))
    elif cmd == "run":
        run(int(sys.argv[2]), int(sys.argv[3]))
    elif cmd == "only":
        run(int(sys.argv[2]), 1, only=set(int(x) for x in sys.argv[3:]))
    elif cmd == "summary":
        summary()
