module mutate

go 1.22
