// Command mutate lists first-order mutants of the Go files given on the command line as JSON
// lines {file, line, op, start, end, old, new}: a mutant is the replacement of bytes
// [start,end) of the file by "new". Only syntactic operators; no type information.
package main

import (
	"encoding/json"
	"fmt"
	"go/ast"
	"go/parser"
	"go/token"
	"os"
	"strconv"
)

type mut struct {
	File  string `json:"file"`
	Line  int    `json:"line"`
	Op    string `json:"op"`
	Start int    `json:"start"`
	End   int    `json:"end"`
	Old   string `json:"old"`
	New   string `json:"new"`
}

var swaps = map[token.Token][]string{
	token.EQL: {"!="}, token.NEQ: {"=="}, token.LSS: {"<=", ">="}, token.LEQ: {"<"}, token.GTR: {">=", "<="}, token.GEQ: {">"},
	token.LAND: {"||"}, token.LOR: {"&&"},
}

func main() {
	enc := json.NewEncoder(os.Stdout)
	for _, path := range os.Args[1:] {
		src, err := os.ReadFile(path)
		if err != nil {
			panic(err)
		}
		fset := token.NewFileSet()
		f, err := parser.ParseFile(fset, path, src, parser.ParseComments)
		if err != nil {
			panic(err)
		}
		off := func(p token.Pos) int { return fset.Position(p).Offset }
		emit := func(op string, s, e int, nw string) {
			enc.Encode(mut{File: path, Line: fset.Position(token.Pos(fset.File(f.Pos()).Base() + s)).Line, Op: op, Start: s, End: e, Old: string(src[s:e]), New: nw})
		}
		var funcs []*ast.FuncType
		ast.Inspect(f, func(n ast.Node) bool {
			switch x := n.(type) {
			case *ast.FuncDecl:
				funcs = append(funcs, x.Type)
			case *ast.FuncLit:
				funcs = append(funcs, x.Type)
			}
			return true
		})
		// enclosing function type of a position
		enclosing := func(p token.Pos) *ast.FuncType {
			var best *ast.FuncType
			var bestBody ast.Node
			ast.Inspect(f, func(n ast.Node) bool {
				var ft *ast.FuncType
				var body *ast.BlockStmt
				switch x := n.(type) {
				case *ast.FuncDecl:
					ft, body = x.Type, x.Body
				case *ast.FuncLit:
					ft, body = x.Type, x.Body
				}
				if body != nil && body.Pos() <= p && p < body.End() {
					if bestBody == nil || (body.Pos() >= bestBody.Pos() && body.End() <= bestBody.End()) {
						best, bestBody = ft, body
					}
				}
				return true
			})
			return best
		}
		ast.Inspect(f, func(n ast.Node) bool {
			switch x := n.(type) {
			case *ast.BinaryExpr:
				if alts, ok := swaps[x.Op]; ok {
					s := off(x.OpPos)
					for _, a := range alts {
						emit("binop", s, s+len(x.Op.String()), a)
					}
				}
				if x.Op == token.ADD || x.Op == token.SUB {
					if lit, ok := x.Y.(*ast.BasicLit); ok && lit.Kind == token.INT {
						s := off(x.OpPos)
						nw := "-"
						if x.Op == token.SUB {
							nw = "+"
						}
						emit("arith", s, s+1, nw)
						// drop the "+ 1"
						emit("arith_drop", off(x.X.End()), off(x.Y.End()), "")
					}
				}
			case *ast.IfStmt:
				if x.Cond != nil {
					s, e := off(x.Cond.Pos()), off(x.Cond.End())
					emit("negate_if", s, e, "!("+string(src[s:e])+")")
				}
			case *ast.ForStmt:
				if x.Cond != nil {
					s, e := off(x.Cond.Pos()), off(x.Cond.End())
					emit("negate_for", s, e, "!("+string(src[s:e])+")")
				}
			case *ast.BlockStmt:
				for _, st := range x.List {
					del := false
					switch y := st.(type) {
					case *ast.ExprStmt:
						if call, ok := y.X.(*ast.CallExpr); ok {
							if id, ok := call.Fun.(*ast.Ident); ok && (id.Name == "verifYield" || id.Name == "panic") {
								break
							}
							del = true
						}
					case *ast.AssignStmt:
						del = y.Tok != token.DEFINE
					case *ast.IncDecStmt, *ast.DeferStmt, *ast.SendStmt:
						del = true
					}
					if del {
						s, e := off(st.Pos()), off(st.End())
						emit("delete_stmt", s, e, "_ = 0")
					}
				}
			case *ast.ReturnStmt:
				ft := enclosing(x.Pos())
				if ft != nil && ft.Results != nil && len(ft.Results.List) == 1 && len(x.Results) == 1 {
					if id, ok := ft.Results.List[0].Type.(*ast.Ident); ok {
						s, e := off(x.Results[0].Pos()), off(x.Results[0].End())
						old := string(src[s:e])
						switch id.Name {
						case "error":
							if old != "nil" {
								emit("return_nil", s, e, "nil")
							}
						case "bool":
							if old == "true" {
								emit("return_bool", s, e, "false")
							} else if old == "false" {
								emit("return_bool", s, e, "true")
							} else {
								emit("return_bool", s, e, "!("+old+")")
							}
						}
					}
				}
			case *ast.BranchStmt:
				if x.Label == nil {
					s := off(x.Pos())
					switch x.Tok {
					case token.BREAK:
						emit("branch", s, s+5, "continue")
					case token.CONTINUE:
						emit("branch", s, s+8, "break")
					}
				}
			case *ast.BasicLit:
				if x.Kind == token.INT {
					if v, err := strconv.ParseInt(x.Value, 0, 64); err == nil && v >= 0 && v <= 4096 {
						s := off(x.Pos())
						nw := strconv.FormatInt(v+1, 10)
						if v == 1 {
							nw = "0"
						}
						emit("int_lit", s, s+len(x.Value), nw)
					}
				}
			case *ast.Ident:
				if x.Name == "true" || x.Name == "false" {
					s := off(x.Pos())
					nw := "false"
					if x.Name == "false" {
						nw = "true"
					}
					emit("bool_lit", s, s+len(x.Name), nw)
				}
			}
			return true
		})
		_ = fmt.Sprint
		_ = funcs
	}
}
