#!/usr/bin/env python3
"""Process one wave of sub-agent deliveries on private lanes (never touches /repo's tree).

  wave.py <wave-tag> <lane> <mutdir>...     e.g. wave.py w10 0 /tmp/mut/C01/out/m1 /tmp/mut/C01/out/m2

For each delivery: verify (scratch worktree), run the quick check of its property on the lane
(MUT_REPO/MUT_VERIF = /tmp/mlane<lane>/{repo,verif}), and keep confirmed ones as
/verif/seeded/<ID>-<tag>m<i>/ with the outcome in meta.json.  Lanes are created by
mutation_run.py setup <lane>.
"""
import json, os, sys
lane = sys.argv[2]
os.environ["MUT_REPO"] = "/tmp/mlane%s/repo" % lane
os.environ["MUT_VERIF"] = "/tmp/mlane%s/verif" % lane
sys.path.insert(0, os.path.dirname(os.path.abspath(__file__)))
import mutant

tag = sys.argv[1]
for mutdir in sys.argv[3:]:
    try:
        meta = json.load(open(os.path.join(mutdir, "meta.json")))
        prop = meta["property"]
        name = "%s-%s%s" % (prop, tag, os.path.basename(mutdir.rstrip("/")))
        v = mutant.verify(mutdir)
        if not v.get("confirmed"):
            print(name, "NOT CONFIRMED", json.dumps(v)[:1500], flush=True)
            continue
        c = mutant.check(mutdir, [prop])
        mutant.VERIF = "/verif"
        mutant.keep(mutdir, name, {"verified_by_me": v, "checks_quick": c})
        mutant.VERIF = os.environ["MUT_VERIF"]
        print(name, "kept; detected:", {p: r.get("detected") for p, r in c.items()}, (c.get(prop, {}).get("first") or [""])[:1], flush=True)
    except Exception as e:
        print(mutdir, "ERROR", repr(e), flush=True)
