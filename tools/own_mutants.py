#!/usr/bin/env python3
"""Hand-written breaking changes taken from the "aimed at" lists of the design (not independent
of the checks, unlike seeded/): each is applied to /repo by exact string replacement, the
repository suite is run (a change that fails the suite is reported as such), the listed quick
checks are run, and the change is undone. Results go to /verif/seeded/OWN_MUTANTS.md.

  own_mutants.py [name ...]
"""
import json, os, subprocess, sys, time

sys.path.insert(0, os.path.dirname(os.path.abspath(__file__)))
import mutant

M = [
    # name, file, old, new, checks
    ("crlf-as-two-newlines", "internal/parser/chunk.go", "if b == '\\r' && index < l-1 && s[index+1] == '\\n' {", "if false && b == '\\r' && index < l-1 && s[index+1] == '\\n' {", ["C01", "C02"]),
    ("trim-all-leading-spaces", "internal/parser/field_parser.go", "\tif c != \"\" && c[0] == ' ' {\n\t\treturn c[1:]\n\t}\n\treturn c", "\treturn strings.TrimLeft(c, \" \")", ["C01", "C02", "C15"]),
    ("id-nul-rule-dropped", "event.go", "\t\t\t\tif strings.IndexByte(f.Value, 0) != -1 {\n\t\t\t\t\tbreak\n\t\t\t\t}\n\n\t\t\t\tlastEventID = f.Value", "\t\t\t\tlastEventID = f.Value", ["C01", "C10"]),
    ("type-not-reset-after-dispatch", "event.go", "\t\t\t\t\tsb.Reset()\n\t\t\t\t\ttyp = \"\"\n", "\t\t\t\t\tsb.Reset()\n", ["C01", "C13"]),
    ("eof-flush-even-when-unterminated", "event.go", "\t\tif dirty && isEOF {", "\t\tif dirty && (isEOF || err == parser.ErrUnexpectedEOF) {", ["C01", "C05", "C10"]),
    ("retry-makes-read-dirty", "event.go", "\t\t\t\tif onRetry != nil {\n\t\t\t\t\tonRetry(int64(n)) //nolint:gosec // n < 2^63\n\t\t\t\t\tdirty = true\n\t\t\t\t}", "\t\t\t\tif onRetry != nil {\n\t\t\t\t\tonRetry(int64(n)) //nolint:gosec // n < 2^63\n\t\t\t\t}\n\t\t\t\tdirty = true", ["C01"]),
    ("appendtext-ignores-cr", "message.go", "\t\t\tcontent, c, _ = parser.NextChunk(c)\n", "\t\t\tif i := strings.IndexByte(c, '\\n'); i >= 0 {\n\t\t\t\tcontent, c = c[:i], c[i+1:]\n\t\t\t} else {\n\t\t\t\tcontent, c = c, \"\"\n\t\t\t}\n", ["C02", "C15", "C19"]),
    ("no-space-after-data-colon", "message.go", "fieldBytesData    = []byte(parser.FieldNameData + \": \")", "fieldBytesData    = []byte(parser.FieldNameData + \":\")", ["C02", "C15"]),
    ("empty-message-still-terminated", "message.go", "\tif n == 0 {\n\t\treturn 0, nil\n\t}\n\to, err := w.Write(newline)", "\to, err := w.Write(newline)", ["C02", "C15", "C16"]),
    ("fanout-stops-after-first-match", "joe.go", "\t\t\t\t\tverifYield(\"loop.sent\")\n", "\t\t\t\t\tverifYield(\"loop.sent\")\n\t\t\t\t\tbreak\n", ["C03", "C17"]),
    ("register-before-replay", "joe.go", "\t\t\tvar err error\n\t\t\tif replay != nil {\n\t\t\t\terr = tryReplay(sub.Subscription, &replay)\n\t\t\t}\n", "\t\t\tvar err error\n\t\t\tj.subscribers[sub.done] = sub.Subscription\n\t\t\tif replay != nil {\n\t\t\t\terr = tryReplay(sub.Subscription, &replay)\n\t\t\t}\n", ["C04", "C06"]),
    ("fanout-original-not-put-copy", "joe.go", "\t\t\t\t} else if m != nil {\n\t\t\t\t\tmsg.message = m\n\t\t\t\t}", "\t\t\t\t} else if m != nil {\n\t\t\t\t\t_ = m\n\t\t\t\t}", ["C04", "C05", "C19"]),
    ("publish-ignores-shutdown", "joe.go", "\tselect {\n\tcase j.message <- pub:\n\t\tverifYield(\"pub.accepted\")\n\t\treturn <-errs\n\tcase <-j.done:\n\t\treturn ErrProviderClosed\n\t}", "\tj.message <- pub\n\tverifYield(\"pub.accepted\")\n\treturn <-errs", ["C07"]),
    ("loop-exit-without-closing-subscribers", "joe.go", "\tdefer j.closeSubscribers()\n", "", ["C07"]),
    ("put-error-suppresses-fanout", "joe.go", "\t\t\t\t\tmsg.replayerErr <- err\n", "\t\t\t\t\tmsg.replayerErr <- err\n\t\t\t\t\tclose(msg.replayerErr)\n\t\t\t\t\tcontinue\n", ["C17", "C03"]),
    ("flush-every-second-message", "joe.go", "\t\t\t\t\tif err == nil {\n\t\t\t\t\t\terr = sub.Client.Flush()\n\t\t\t\t\t}", "\t\t\t\t\tif err == nil && len(msg.topics)%2 == 1 {\n\t\t\t\t\t\terr = sub.Client.Flush()\n\t\t\t\t\t}", ["C03"]),
    ("finite-enqueue-no-eviction-zeroing", "replay.go", "func (q *queue[T]) dequeue() {\n\tq.buf[q.head] = *new(T)\n", "func (q *queue[T]) dequeue() {\n", ["C18", "C09"]),
    ("valid-expiry-inclusive", "replay.go", "\t\tif m.exp.After(now) && topicsIntersect(subscription.Topics, m.topics) {", "\t\tif !m.exp.Before(now) && topicsIntersect(subscription.Topics, m.topics) {", ["C09"]),
    ("gc-dequeues-one-too-many", "replay.go", "\t\tif e.exp.After(now) {\n\t\t\tbreak\n\t\t}\n\n\t\tv.messages.dequeue()", "\t\tv.messages.dequeue()\n\t\tif e.exp.After(now) {\n\t\t\tbreak\n\t\t}\n", ["C09", "C04"]),
    ("max-retries-off-by-one", "client.go", "(c.b.MaxRetries > 0 && c.numRetries == c.b.MaxRetries)", "(c.b.MaxRetries > 0 && c.numRetries > c.b.MaxRetries)", ["C12", "C11"]),
    ("growth-before-first-use", "client.go", "\tnext := nextInterval(c.b.Jitter, c.rng, c.interval)\n\tc.interval = growInterval(c.interval, c.b.MaxInterval, c.b.Multiplier)\n", "\tc.interval = growInterval(c.interval, c.b.MaxInterval, c.b.Multiplier)\n\tnext := nextInterval(c.b.Jitter, c.rng, c.interval)\n", ["C12"]),
    ("max-interval-ignored", "client.go", "\tif maxInterval > 0 && float64(current) >= float64(maxInterval)/mul {\n\t\treturn maxInterval\n\t}\n", "", ["C12"]),
    ("onretry-gets-base-not-wait", "client_connection.go", "\t\t\t\tc.client.OnRetry(err, next)", "\t\t\t\tc.client.OnRetry(err, c.client.Backoff.InitialInterval)", ["C12"]),
    ("header-never-deleted", "client_connection.go", "\tif c.lastEventID == \"\" {\n\t\tc.request.Header.Del(\"Last-Event-ID\")\n\t} else {", "\tif c.lastEventID != \"\" {", ["C10", "C05"]),
    ("body-reset-skipped", "client_connection.go", "\tif err := resetRequestBody(c.request); err != nil {\n\t\treturn err\n\t}\n", "", ["C10"]),
    ("remover-deletes-whole-type", "client_connection.go", "\t\tdelete(c.callbacks[event], id)\n\t\tif len(c.callbacks[event]) == 0 {\n\t\t\tdelete(c.callbacks, event)\n\t\t}", "\t\tdelete(c.callbacks, event)", ["C13"]),
    ("dispatch-all-or-typed", "client_connection.go", "\tfor _, cb := range c.callbacks[ev.Type] {\n\t\tcb(ev)\n\t}\n\tfor _, cb := range c.callbacksAll {", "\tfor _, cb := range c.callbacks[ev.Type] {\n\t\tcb(ev)\n\t}\n\tif len(cbs) > 0 {\n\t\treturn\n\t}\n\tfor _, cb := range c.callbacksAll {", ["C13"]),
    ("unmarshaltext-keeps-old-on-error", "message_fields.go", "func (i *messageField) UnmarshalText(data []byte) error {\n\t*i = messageField{}\n", "func (i *messageField) UnmarshalText(data []byte) error {\n", ["C14"]),
    ("writeto-drops-partial-count", "message.go", "\tm, err := writeString(w, c.content)\n\tn += m\n\tif err != nil {\n\t\treturn int64(n), err\n\t}\n\tm, err = w.Write(newline)\n\treturn int64(n + m), err\n}\n\n// Message is", "\tm, err := writeString(w, c.content)\n\tif err != nil {\n\t\treturn int64(n), err\n\t}\n\tn += m\n\tm, err = w.Write(newline)\n\treturn int64(n + m), err\n}\n\n// Message is", ["C15", "C16"]),
    ("session-flush-skipped-after-upgrade-forever", "session.go", "\tif prevDidUpgrade == s.didUpgrade {\n\t\treturn s.Res.Flush()\n\t}\n\treturn nil", "\tif prevDidUpgrade != s.didUpgrade {\n\t\treturn s.Res.Flush()\n\t}\n\treturn nil", ["C16", "C05"]),
    ("upgrade-no-initial-flush", "session.go", "\t\tif err := s.Res.Flush(); err != nil {\n\t\t\treturn err\n\t\t}\n\t\ts.didUpgrade = true", "\t\ts.didUpgrade = true", ["C16"]),
    ("serve-ignores-onsession-topics", "server.go", "\t\tif ok && len(topics) > 0 {\n\t\t\tsub.Topics = topics\n\t\t}", "\t\t_ = topics", ["C16"]),
    ("clone-shares-retry-only", "message.go", "\t\tchunks: e.chunks[:len(e.chunks):len(e.chunks)],", "\t\tchunks: e.chunks,", ["C19", "C02"]),
    ("read-ignores-max-event-size", "event.go", "\t\tif cfg != nil && cfg.MaxEventSize > 0 {", "\t\tif cfg != nil && cfg.MaxEventSize > 64*1024 {", ["C20"]),
    ("scanner-flushes-partial-on-toolong", "internal/parser/parser.go", "\tif l := len(data); advance == l && !atEOF {", "\tif l := len(data); advance == l && !atEOF && l < 4096 {", ["C20", "C01"]),
]

ENV = dict(os.environ, GOFLAGS="-mod=mod", GOPROXY="off", GOSUMDB="off", GOTOOLCHAIN="local")


def sh(cmd, cwd=None):
    p = subprocess.run(cmd, shell=True, cwd=cwd, env=ENV, stdout=subprocess.PIPE, stderr=subprocess.STDOUT, text=True)
    return p.returncode, p.stdout


def main():
    want = set(sys.argv[1:])
    rows = []
    prev = {}
    pj = "/verif/seeded/own_mutants.json"
    if os.path.exists(pj):
        prev = json.load(open(pj))
    for name, f, old, new, checks in M:
        if want and name not in want:
            continue
        rc, out = sh("git -C /repo status --porcelain")
        if out.strip():
            print("refusing: /repo not clean")
            return
        path = os.path.join("/repo", f)
        src = open(path).read()
        if src.count(old) != 1:
            print(name, "anchor not found exactly once (%d)" % src.count(old))
            rows.append((name, f, "anchor missing", "-", "-"))
            continue
        patched = src.replace(old, new)
        if "strings." in new and '"strings"' not in patched:
            patched = patched.replace("import (\n", "import (\n\t\"strings\"\n", 1)
        open(path, "w").write(patched)
        try:
            rc, out = sh("gofmt -l . ; go build ./... 2>&1 | head -5", cwd="/repo")
            rcb, outb = sh("go build ./...", cwd="/repo")
            if rcb != 0:
                rows.append((name, f, "does not compile", "-", outb.strip()[:100]))
                print(name, "does not compile", outb[:200])
                continue
            passes = 0
            for _ in range(2):
                rct, outt = sh("go test -vet=off -count=1 -timeout 90s ./...", cwd="/repo")
                passes += rct == 0
            suite = "passes" if passes == 2 else ("flaky" if passes == 1 else "FAILS")
            caught, missed, first = [], [], ""
            for p in checks:
                rcc, outc = sh("./check %s" % p, cwd="/verif")
                lines = [l for l in outc.splitlines() if l.startswith("  C")]
                if rcc == 1 and "VIOLATION" in outc:
                    caught.append(p)
                    if not first and lines:
                        first = lines[0].strip()[:140]
                else:
                    missed.append(p + ("(inconclusive)" if rcc == 2 else ""))
            rows.append((name, f, suite, ", ".join(caught) or "-", ", ".join(missed) or "-", first))
            prev[name] = rows[-1]
            json.dump(prev, open(pj, "w"), indent=1)
            print(name, suite, "caught:", caught, "missed:", missed, flush=True)
        finally:
            sh("git -C /repo checkout -- .")
    with open("/verif/seeded/OWN_MUTANTS.md", "w") as fo:
        fo.write("# Hand-written breaking changes (from the design's \"aimed at\" lists)\n\nNot independent of the checks (I wrote both); kept as a regression list. `suite` says whether the repository's own tests notice the change.\n\n| change | file | suite | caught by | run but missed by | first report |\n|---|---|---|---|---|---|\n")
        allrows = [prev[n] for n, *_ in M if n in prev]
        for r in allrows:
            r = tuple(r) + ("",) * (6 - len(r))
            fo.write("| %s | %s | %s | %s | %s | %s |\n" % tuple(str(x).replace("|", "\\|") for x in r))
    print("written")


if __name__ == "__main__":
    main()
