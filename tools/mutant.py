#!/usr/bin/env python3
"""Handling of seeded changes (mutants) produced by independent sub-agents.

  mutant.py verify <mutdir>            confirm in a scratch worktree: suite passes with the patch, demo fails with it and passes without
  mutant.py check  <mutdir> <ID>...    apply the patch to /repo, run ./check <ID> (quick) for each, undo; prints detection
  mutant.py keep   <mutdir> <name>     copy patch.diff, demo and meta.json to /verif/seeded/<name>/
"""
import json, os, shutil, subprocess, sys, tempfile, time

ENV = dict(os.environ, GOFLAGS="-mod=mod", GOPROXY="off", GOSUMDB="off", GOTOOLCHAIN="local")
REPO = os.environ.get("MUT_REPO", "/repo")
VERIF = os.environ.get("MUT_VERIF", "/verif")


def sh(cmd, cwd=None, timeout=1800):
    p = subprocess.run(cmd, shell=True, cwd=cwd, env=ENV, stdout=subprocess.PIPE, stderr=subprocess.STDOUT, text=True, timeout=timeout)
    return p.returncode, p.stdout


def demo_file(mutdir):
    for n in ("demo_test.go",):
        p = os.path.join(mutdir, n)
        if os.path.exists(p):
            return p
    for n in os.listdir(mutdir):
        if n.endswith("_test.go"):
            return os.path.join(mutdir, n)
    return None


def verify(mutdir):
    meta = json.load(open(os.path.join(mutdir, "meta.json")))
    wt = tempfile.mkdtemp(prefix="mv_", dir="/tmp")
    os.rmdir(wt)
    res = {"ran": []}
    try:
        rc, out = sh("git -C %s worktree add -q --detach %s HEAD" % (REPO, wt))
        assert rc == 0, out
        target = os.path.join(wt, meta.get("demo_target_dir", ".").replace("/tmp/mut/%s" % meta.get("property", ""), ".").lstrip("/") if not os.path.isabs(meta.get("demo_target_dir", ".")) else wt)
        tdir = meta.get("demo_target_dir", ".")
        # normalise: agents wrote either "." / "internal/parser" or an absolute path inside their worktree
        if os.path.isabs(tdir):
            parts = tdir.split("/")
            # /tmp/mut/Cxx/<rest>
            tdir = "/".join(parts[4:]) or "."
        target = os.path.join(wt, tdir)
        demo = demo_file(mutdir)
        shutil.copy(demo, os.path.join(target, "zz_demo_test.go"))
        run = meta.get("demo_run_cmd", "go test -vet=off -count=1 ./...")
        run = run.replace("/tmp/mut/%s" % meta.get("property", "C00"), wt)
        rc0, out0 = sh(run, cwd=wt)
        res["demo_without_patch"] = "pass" if rc0 == 0 else "FAIL"
        res["ran"].append("%s (clean) -> rc=%d" % (run, rc0))
        rc, out = sh("git apply %s" % os.path.join(mutdir, "patch.diff"), cwd=wt)
        res["applies"] = rc == 0
        if rc != 0:
            res["apply_output"] = out[-800:]
            return res
        rc1, out1 = sh(run, cwd=wt)
        res["demo_with_patch"] = "fail" if rc1 != 0 else "PASS"
        res["ran"].append("%s (patched) -> rc=%d" % (run, rc1))
        os.remove(os.path.join(target, "zz_demo_test.go"))
        # the repository's own suite has timing-based tests (TestJoe_Shutdown,
        # TestConnection_Connect_resetBody) that fail a few percent of runs on a loaded machine,
        # with or without any change: two passing runs out of at most six are required
        passes, runs = 0, 0
        while passes < 2 and runs < 6:
            rc2, out2 = sh("go test -vet=off -count=1 ./...", cwd=wt)
            runs += 1
            passes += rc2 == 0
        ok = passes >= 2
        res["suite_runs"] = "%d passes in %d runs" % (passes, runs)
        rc3, out3 = sh("go build ./... && go vet ./... ", cwd=wt)
        res["suite_with_patch"] = "pass" if ok else "FAIL"
        res["ran"].append("go test -vet=off -count=1 ./... x2 (patched) -> %s" % res["suite_with_patch"])
        if not ok:
            res["suite_output"] = out2[-1500:]
        res["confirmed"] = res["demo_without_patch"] == "pass" and res["demo_with_patch"] == "fail" and ok
        if not res["confirmed"]:
            res["demo_out_clean"] = out0[-800:]
            res["demo_out_patched"] = out1[-800:]
    finally:
        sh("git -C %s worktree remove --force %s" % (REPO, wt))
        shutil.rmtree(wt, ignore_errors=True)
    return res


def check(mutdir, props, tier="quick"):
    rc, out = sh("git -C %s status --porcelain" % REPO)
    if out.strip():
        print("refusing: /repo is not clean:\n" + out)
        return {}
    res = {}
    rc, out = sh("git -C %s apply %s" % (REPO, os.path.join(mutdir, "patch.diff")))
    if rc != 0:
        print("patch does not apply to /repo:\n" + out)
        return {"applies": False}
    try:
        for p in props:
            t0 = time.time()
            rc, out = sh("./check %s --tier %s" % (p, tier), cwd=VERIF, timeout=7200)
            lines = [l for l in out.splitlines() if l.startswith("VIOLATION") or l.startswith("INCONCLUSIVE") or l.startswith("KNOWN")]
            msgs = [l for l in out.splitlines() if l.startswith("  C") or l.startswith("  tags")]
            res[p] = {"rc": rc, "detected": rc == 1 and any(l.startswith("VIOLATION") for l in lines), "wall_s": round(time.time() - t0, 1),
                      "first": (msgs[:2] + lines[:1])}
    finally:
        sh("git -C %s checkout -- ." % REPO)
        rc, out = sh("git -C %s status --porcelain" % REPO)
        if out.strip():
            print("WARNING: /repo not clean after undo:\n" + out)
    return res


def keep(mutdir, name, extra=None):
    dst = os.path.join(VERIF, "seeded", name)
    os.makedirs(dst, exist_ok=True)
    shutil.copy(os.path.join(mutdir, "patch.diff"), dst)
    shutil.copy(demo_file(mutdir), os.path.join(dst, "demo_test.go"))
    meta = json.load(open(os.path.join(mutdir, "meta.json")))
    if extra:
        meta.update(extra)
    json.dump(meta, open(os.path.join(dst, "meta.json"), "w"), indent=1)
    return dst


if __name__ == "__main__":
    cmd = sys.argv[1]
    if cmd == "verify":
        print(json.dumps(verify(sys.argv[2]), indent=1))
    elif cmd == "check":
        print(json.dumps(check(sys.argv[2], sys.argv[3:]), indent=1))
    elif cmd == "keep":
        print(keep(sys.argv[2], sys.argv[3]))
    elif cmd == "all":
        # verify + check + keep
        mutdir, name, props = sys.argv[2], sys.argv[3], sys.argv[4:]
        v = verify(mutdir)
        print(json.dumps(v, indent=1))
        if not v.get("confirmed"):
            print("NOT CONFIRMED; not kept")
            sys.exit(1)
        c = check(mutdir, props)
        print(json.dumps(c, indent=1))
        d = keep(mutdir, name, {"verified_by_me": v, "checks_quick": c})
        print("kept in", d)
